import Model.Spec
import Proofs.Validation
import Proofs.Chain
import Props.C16

/-!
# C02 — no inflation: value is conserved and issuance follows the subsidy schedule
-/

namespace Model
namespace C02

variable (C : Crypto) (P : Params)

/-- a block is accepted only if its reward transaction's outputs sum to at most
subsidy(height) plus the fees (inputs minus outputs, taken in the *parent's* state) of the other
transactions in it -/
theorem accept_reward_bound (cs cs' : CoinState) (b : Block) (now : Int)
    (h : addBlock C P cs b now = .ok cs') (hz : P.maxKnownHeight < b.height) :
    ∃ u cb rest fees, cs.utxoAt.get? b.prev = some u ∧ b.txs = cb :: rest ∧
      blockFees u rest = .ok fees ∧
      (outputsValue cb.tx.outputs : Int) ≤ (subsidy P b.height : Int) + fees := by
  obtain ⟨_, h2, _⟩ := addBlock_ok C P cs cs' b now h
  obtain ⟨_, _, ⟨u, cb, rest, fees, hu, htx, hf, hle, _⟩⟩ :=
    validateBlockInState_ok C P cs b (by omega) h2
  exact ⟨u, cb, rest, fees, hu, htx, hf, by omega⟩

/-- every other transaction has each output in (0, maximum], an output total in (0, maximum]
and at most the value of its inputs -/
theorem accept_transaction_values (cs cs' : CoinState) (b : Block) (now : Int)
    (h : addBlock C P cs b now = .ok cs') (hz : P.maxKnownHeight < b.height) :
    ∃ u cb rest, cs.utxoAt.get? b.prev = some u ∧ b.txs = cb :: rest ∧
      ∀ t ∈ rest,
        (∀ o ∈ t.tx.outputs, 0 < o.value ∧ o.value ≤ P.maxSashimi) ∧
        (0 < outputsValue t.tx.outputs ∧ outputsValue t.tx.outputs ≤ P.maxSashimi) ∧
        ∃ total, inputsValue u t.tx.inputs = .ok total ∧ outputsValue t.tx.outputs ≤ total := by
  obtain ⟨h1, h2, _⟩ := addBlock_ok C P cs cs' b now h
  obtain ⟨_, _, ⟨u, cb, rest, fees, hu, htx, _, _, hall⟩⟩ :=
    validateBlockInState_ok C P cs b (by omega) h2
  obtain ⟨_, _, ⟨cb', rest', htx', _, hall', _, _⟩, _, _⟩ := validateBlockByItself_ok C P b now h1
  rw [htx] at htx'
  cases htx'
  refine ⟨u, cb, rest, hu, htx, ?_⟩
  intro t ht
  have a := (validateTxByItself_ok P t).mp (hall' t ht)
  obtain ⟨total, _, hin, hle⟩ := validateTxInState_ok C u t (hall t ht)
  exact ⟨a.2.2.2.1, a.2.2.2.2.1, total, hin, hle⟩

/-- the fee of a block is the sum over its transactions of inputs minus outputs -/
theorem blockFees_nonneg (u : Utxo) (rest : List CTx) (fees : Int)
    (hf : blockFees u rest = .ok fees)
    (hall : ∀ t ∈ rest, ∃ total, inputsValue u t.tx.inputs = .ok total ∧ outputsValue t.tx.outputs ≤ total) :
    0 ≤ fees := by
  sorry

/-- conservation: the total value of unspent outputs after an accepted block never exceeds the
total after its parent plus that height's subsidy -/
theorem conservation (cs cs' : CoinState) (b : Block) (now : Int)
    (h : addBlock C P cs b now = .ok cs') (hz : P.maxKnownHeight < b.height) :
    ∃ u u', cs.utxoAt.get? b.prev = some u ∧ cs'.utxoAt.get? (b.id C) = some u' ∧
      totalValue u' ≤ totalValue u + subsidy P b.height := by
  sorry

/-- a chain all of whose non-genesis blocks were accepted by full validation above the horizon,
starting from a genesis block that is a lone reward of at most subsidy(0): the unspent total at
the tip never exceeds the cumulative subsidy schedule -/
inductive ValidChain : CoinState → Block → Prop where
  | genesis (g : Block) (cs : CoinState) (u : Utxo) :
      addBlockNoValidation C .empty g = .ok cs → g.prev = zeros 32 → g.height = 0 →
      cs.utxoAt.get? (g.id C) = some u → totalValue u ≤ subsidy P 0 → ValidChain cs g
  | step (cs cs' : CoinState) (p b : Block) (now : Int) :
      ValidChain cs p → b.prev = p.id C → addBlock C P cs b now = .ok cs' →
      P.maxKnownHeight < b.height → b.id C ≠ p.id C → ValidChain cs' b

/-- cumulative subsidy for heights `0 … n-1` under parameters `P` -/
def schedule : Nat → Nat
  | 0 => 0
  | n + 1 => schedule n + subsidy P n

theorem supply_bound (cs : CoinState) (tip : Block) (hv : ValidChain C P cs tip) :
    ∃ u, cs.utxoAt.get? (tip.id C) = some u ∧ totalValue u ≤ schedule P (tip.height + 1) := by
  sorry

/-- with the production constants regenerated from /repo: never more than the documented
maximum of 20,999,999.8635 coin -/
theorem supply_bound_production (cs : CoinState) (tip : Block) (hv : ValidChain C Gen.params cs tip) :
    ∃ u, cs.utxoAt.get? (tip.id C) = some u ∧ totalValue u ≤ 2099999986350000 := by
  sorry

end C02
end Model

import Model.Spec
import Proofs.Validation
import Proofs.Chain
import Proofs.Value
import Props.C16

/-!
# C02 — no inflation: value is conserved and issuance follows the subsidy schedule
-/

namespace Model
namespace C02

variable (C : Crypto) (P : Params)

/-- a block is accepted only if its reward transaction's outputs sum to at most
subsidy(height) plus the fees (inputs minus outputs, taken in the *parent's* state) of the other
transactions in it -/
theorem accept_reward_bound (cs cs' : CoinState) (b : Block) (now : Int)
    (h : addBlock C P cs b now = .ok cs') (hz : P.maxKnownHeight < b.height) :
    ∃ u cb rest fees, cs.utxoAt.get? b.prev = some u ∧ b.txs = cb :: rest ∧
      blockFees u rest = .ok fees ∧
      (outputsValue cb.tx.outputs : Int) ≤ (subsidy P b.height : Int) + fees := by
  obtain ⟨_, h2, _⟩ := addBlock_ok C P cs cs' b now h
  obtain ⟨_, _, ⟨u, cb, rest, fees, hu, htx, hf, hle, _⟩⟩ :=
    validateBlockInState_ok C P cs b (by omega) h2
  exact ⟨u, cb, rest, fees, hu, htx, hf, by omega⟩

/-- every other transaction has each output in (0, maximum], an output total in (0, maximum]
and at most the value of its inputs -/
theorem accept_transaction_values (cs cs' : CoinState) (b : Block) (now : Int)
    (h : addBlock C P cs b now = .ok cs') (hz : P.maxKnownHeight < b.height) :
    ∃ u cb rest, cs.utxoAt.get? b.prev = some u ∧ b.txs = cb :: rest ∧
      ∀ t ∈ rest,
        (∀ o ∈ t.tx.outputs, 0 < o.value ∧ o.value ≤ P.maxSashimi) ∧
        (0 < outputsValue t.tx.outputs ∧ outputsValue t.tx.outputs ≤ P.maxSashimi) ∧
        ∃ total, inputsValue u t.tx.inputs = .ok total ∧ outputsValue t.tx.outputs ≤ total := by
  obtain ⟨h1, h2, _⟩ := addBlock_ok C P cs cs' b now h
  obtain ⟨_, _, ⟨u, cb, rest, fees, hu, htx, _, _, hall⟩⟩ :=
    validateBlockInState_ok C P cs b (by omega) h2
  obtain ⟨_, _, ⟨cb', rest', htx', _, hall', _, _⟩, _, _⟩ := validateBlockByItself_ok C P b now h1
  rw [htx] at htx'
  cases htx'
  refine ⟨u, cb, rest, hu, htx, ?_⟩
  intro t ht
  have a := (validateTxByItself_ok P t).mp (hall' t ht)
  obtain ⟨total, _, hin, hle⟩ := validateTxInState_ok C u t (hall t ht)
  exact ⟨a.2.2.2.1, a.2.2.2.2.1, total, hin, hle⟩

/-- the fee of a block is the sum over its transactions of inputs minus outputs -/
theorem blockFees_nonneg (u : Utxo) (rest : List CTx) (fees : Int)
    (hf : blockFees u rest = .ok fees)
    (hall : ∀ t ∈ rest, ∃ total, inputsValue u t.tx.inputs = .ok total ∧ outputsValue t.tx.outputs ≤ total) :
    0 ≤ fees :=
  blockFees_nonneg' u rest fees hf hall

/-- conservation: the total value of unspent outputs after an accepted block never exceeds the
total after its parent plus that height's subsidy -/
theorem conservation (cs cs' : CoinState) (b : Block) (now : Int)
    (h : addBlock C P cs b now = .ok cs') (hz : P.maxKnownHeight < b.height) :
    ∃ u u', cs.utxoAt.get? b.prev = some u ∧ cs'.utxoAt.get? (b.id C) = some u' ∧
      totalValue u' ≤ totalValue u + subsidy P b.height := by
  obtain ⟨h1, h2, h3⟩ := addBlock_ok C P cs cs' b now h
  obtain ⟨_, _, ⟨u, cb, rest, fees, hu, htx, hf, hle, _⟩⟩ :=
    validateBlockInState_ok C P cs b (by omega) h2
  obtain ⟨_, _, ⟨cb', rest', htx', _, _, _, hnd⟩, _, _⟩ := validateBlockByItself_ok C P b now h1
  rw [htx] at htx'
  cases htx'
  obtain ⟨u₀, u', hz0, hnz0, happ, hset⟩ := add_ok_utxo_value C h3
  refine ⟨u, u', hu, by rw [hset, Map.get?_set_self], ?_⟩
  -- the accounting: what the block leaves is what its references did not touch, plus all outputs
  have hacc := totalValue_utoApplyBlock C u₀ u' b cb rest htx happ
  have hcover := N_add_refsValue_le u (allRefs rest) hnd
  have hfees := blockFees_eq u rest fees hf
  -- the starting map of `add_block_no_validation` holds no more than the parent's map outside
  -- the block's references (it is the parent's map, or empty when the parent id is all zeros)
  have hstart : N u₀ (allRefs rest) ≤ N u (allRefs rest) := by
    by_cases hz' : b.prev = zeros 32
    · rw [hz0 hz', N_nil_map]; exact Nat.zero_le _
    · have := hnz0 hz'
      rw [hu] at this
      cases this
      exact Nat.le_refl _
  omega

/-- a chain all of whose non-genesis blocks were accepted by full validation above the horizon,
starting from a genesis block that is a lone reward of at most subsidy(0): the unspent total at
the tip never exceeds the cumulative subsidy schedule -/
inductive ValidChain : CoinState → Block → Prop where
  | genesis (g : Block) (cs : CoinState) (u : Utxo) :
      addBlockNoValidation C .empty g = .ok cs → g.prev = zeros 32 → g.height = 0 →
      cs.utxoAt.get? (g.id C) = some u → totalValue u ≤ subsidy P 0 → ValidChain cs g
  | step (cs cs' : CoinState) (p b : Block) (now : Int) :
      ValidChain cs p → b.prev = p.id C → addBlock C P cs b now = .ok cs' →
      P.maxKnownHeight < b.height → b.id C ≠ p.id C → ValidChain cs' b

/-- cumulative subsidy for heights `0 … n-1` under parameters `P` -/
def schedule : Nat → Nat
  | 0 => 0
  | n + 1 => schedule n + subsidy P n

theorem supply_bound (cs : CoinState) (tip : Block) (hv : ValidChain C P cs tip) :
    ∃ u, cs.utxoAt.get? (tip.id C) = some u ∧ totalValue u ≤ schedule P (tip.height + 1) := by
  -- strengthened induction: the tip is the block stored under its own id
  have aux : cs.blocks.get? (tip.id C) = some tip ∧
      ∃ u, cs.utxoAt.get? (tip.id C) = some u ∧ totalValue u ≤ schedule P (tip.height + 1) := by
    induction hv with
    | genesis g cs u hadd _ hh hu hle =>
      refine ⟨?_, u, hu, ?_⟩
      · rw [(add_ok_inv C hadd).1, Map.get?_set_self]
      · rw [hh]
        simp only [schedule]
        omega
    | step cs cs' p b now _ hprev hadd hz _ ih =>
      obtain ⟨hp, up, hup, hsup⟩ := ih
      obtain ⟨h1, h2, h3⟩ := addBlock_ok C P cs cs' b now hadd
      refine ⟨by rw [(add_ok_inv C h3).1, Map.get?_set_self], ?_⟩
      obtain ⟨⟨pb, hpb, _, hheight, _⟩, _, _⟩ := validateBlockInState_ok C P cs b (by omega) h2
      rw [hprev, hp] at hpb
      cases hpb
      obtain ⟨u, u', hu, hu', hle⟩ := conservation C P cs cs' b now hadd hz
      rw [hprev, hup] at hu
      cases hu
      refine ⟨u', hu', ?_⟩
      rw [hheight] at hle ⊢
      simp only [schedule] at hsup ⊢
      omega
  exact aux.2

/-- the same from any starting point: a stored block `p` whose unspent total is within the schedule (for instance the last
checkpointed block, whose chain the node accepted by id), extended by blocks accepted by full validation above the horizon -/
inductive ValidChainFrom : CoinState → Block → Prop where
  | base (cs : CoinState) (p : Block) (u : Utxo) :
      cs.blocks.get? (p.id C) = some p → cs.utxoAt.get? (p.id C) = some u →
      totalValue u ≤ schedule P (p.height + 1) → ValidChainFrom cs p
  | step (cs cs' : CoinState) (p b : Block) (now : Int) :
      ValidChainFrom cs p → b.prev = p.id C → addBlock C P cs b now = .ok cs' →
      P.maxKnownHeight < b.height → b.id C ≠ p.id C → ValidChainFrom cs' b

theorem supply_bound_from (cs : CoinState) (tip : Block) (hv : ValidChainFrom C P cs tip) :
    ∃ u, cs.utxoAt.get? (tip.id C) = some u ∧ totalValue u ≤ schedule P (tip.height + 1) := by
  have aux : cs.blocks.get? (tip.id C) = some tip ∧
      ∃ u, cs.utxoAt.get? (tip.id C) = some u ∧ totalValue u ≤ schedule P (tip.height + 1) := by
    induction hv with
    | base cs p u hb hu hle => exact ⟨hb, u, hu, hle⟩
    | step cs cs' p b now _ hprev hadd hz _ ih =>
      obtain ⟨hp, up, hup, hsup⟩ := ih
      obtain ⟨h1, h2, h3⟩ := addBlock_ok C P cs cs' b now hadd
      refine ⟨by rw [(add_ok_inv C h3).1, Map.get?_set_self], ?_⟩
      obtain ⟨⟨pb, hpb, _, hheight, _⟩, _, _⟩ := validateBlockInState_ok C P cs b (by omega) h2
      rw [hprev, hp] at hpb
      cases hpb
      obtain ⟨u, u', hu, hu', hle⟩ := conservation C P cs cs' b now hadd hz
      rw [hprev, hup] at hu
      cases hu
      refine ⟨u', hu', ?_⟩
      rw [hheight] at hle ⊢
      simp only [schedule] at hsup ⊢
      omega
  exact aux.2

theorem schedule_production (n : Nat) : schedule Gen.params n = C16.supply n := by
  induction n with
  | zero => rfl
  | succ n ih => simp only [schedule, C16.supply, ih]

/-- with the production constants regenerated from /repo: if the unspent total at some stored block (the last checkpointed one,
say) is within the documented schedule, then after any sequence of blocks accepted by full validation above the checkpoint horizon
it is never more than the documented maximum of 20,999,999.8635 coin.

(The first version of this theorem quantified over `ValidChain`, whose every step needs a height above the horizon while the chain
starts at height 0: with the production horizon of 163,000 no such chain has a second block — `production_validChain_only_genesis`
— and the statement was vacuous. Below the horizon the node accepts the checkpointed chain by id without validating it, so what
can be proved of the code is exactly this relative statement; that the checkpointed chain itself respects the schedule is a fact
about the recorded history of the real network, part of the trusted base of C18.) -/
theorem supply_bound_production (cs : CoinState) (tip : Block) (hv : ValidChainFrom C Gen.params cs tip) :
    ∃ u, cs.utxoAt.get? (tip.id C) = some u ∧ totalValue u ≤ 2099999986350000 := by
  obtain ⟨u, hu, hle⟩ := supply_bound_from C Gen.params cs tip hv
  rw [schedule_production] at hle
  exact ⟨u, hu, Nat.le_trans hle (C16.supply_le_max _)⟩

/-- why `ValidChain` is the wrong quantifier for the production constants: every step needs a height above the horizon, full
validation forces heights to grow by one from 0, so with a horizon ≥ 1 a `ValidChain` is a lone genesis block (found by the
vacuity audit, DESIGN §9.5b) -/
theorem validChain_only_genesis_of_positive_horizon (cs : CoinState) (tip : Block)
    (hpos : 1 ≤ P.maxKnownHeight) (hv : ValidChain C P cs tip) :
    tip.height = 0 ∧ tip.prev = zeros 32 ∧ addBlockNoValidation C .empty tip = .ok cs := by
  have aux : cs.blocks.get? (tip.id C) = some tip ∧
      tip.height = 0 ∧ tip.prev = zeros 32 ∧ addBlockNoValidation C .empty tip = .ok cs := by
    induction hv with
    | genesis g cs u hadd hp hh hu hle =>
      exact ⟨by rw [(add_ok_inv C hadd).1, Map.get?_set_self], hh, hp, hadd⟩
    | step cs cs' p b now _ hprev hadd hz _ ih =>
      exfalso
      obtain ⟨hp, hp0, _, _⟩ := ih
      obtain ⟨_, h2, _⟩ := addBlock_ok C P cs cs' b now hadd
      obtain ⟨⟨pb, hpb, _, hheight, _⟩, _, _⟩ := validateBlockInState_ok C P cs b (by omega) h2
      rw [hprev, hp] at hpb
      cases hpb
      omega
  exact aux.2

theorem production_validChain_only_genesis (cs : CoinState) (tip : Block)
    (hv : ValidChain C Gen.params cs tip) : tip.height = 0 ∧ tip.prev = zeros 32 :=
  let h := validChain_only_genesis_of_positive_horizon C Gen.params cs tip (by decide) hv
  ⟨h.1, h.2.1⟩

/-! ## non-vacuity / spot values -/

/-- the schedule under the production constants: 10 coin per block at the start -/
example : schedule Gen.params 0 = 0 ∧ schedule Gen.params 3 = 3000000000 := by
  refine ⟨rfl, ?_⟩
  simp only [schedule]
  rw [C16.subsidy_first_era 0 (by omega), C16.subsidy_first_era 1 (by omega),
    C16.subsidy_first_era 2 (by omega)]

/-- the accounting vocabulary on a concrete map that even holds one key twice: the total counts
every entry, `N` leaves out every entry under a listed key, the look-up sees only the first one,
and erasing a key removes all its entries -/
example :
    let r₁ : OutRef := ⟨[1], 0⟩
    let r₂ : OutRef := ⟨[2], 0⟩
    let u : Utxo := [(r₁, ⟨5, []⟩), (r₂, ⟨7, []⟩), (r₁, ⟨11, []⟩)]
    totalValue u = 23 ∧ N u [r₁] = 7 ∧ N u [] = 23 ∧ refsValue u [r₁, r₂] = 12 ∧
      N u [r₁, r₂] + refsValue u [r₁, r₂] ≤ totalValue u ∧
      totalValue (u.erase r₁) = 7 ∧ totalValue (u.set r₂ ⟨1, []⟩) = 17 := by
  decide

end C02
end Model

import Model.Wallet
import Proofs.Validation
import Proofs.WalletLemmas

/-!
# C14 — the wallet builds exact, valid, non-overlapping spends or changes nothing
-/

namespace Model
namespace C14

variable (C : Crypto) (P : Params)

/-- what a successful `create_spend_transaction` returns -/
theorem spend_shape (w w' : Wallet) (u : Utxo) (bal : PKBalances) (amount fee : Nat) (recipient change : Bytes)
    (sigs : List Bytes) (t : Tx) (h : w.createSpend u bal amount fee recipient change sigs = .ok (w', t)) :
    ∃ chosen : List (OutRef × Output),
      let collected := (chosen.map (·.2.value)).sum
      -- pays exactly the amount to the recipient and exactly inputs − amount − fee to the change
      -- address, and no change output when that is zero
      amount + fee ≤ collected ∧
      t.outputs = [⟨amount, recipient⟩] ++
        (if collected = amount + fee then [] else [⟨collected - amount - fee, change⟩]) ∧
      -- one input per chosen output, each carrying a secp256k1 signature
      t.inputs.map (·.ref) = chosen.map (·.1) ∧ (∀ i ∈ t.inputs, i.sig.isSecp = true) ∧
      -- spends only outputs that are unspent at the head and owned by the wallet's keys
      (∀ ro ∈ chosen, u.get? ro.1 = some ro.2 ∧ ro.2.pk ∈ w.keys) ∧
      -- that no earlier spend from this wallet has used
      (∀ ro ∈ chosen, ro.1 ∉ w.spent) ∧
      -- and records them as used
      w'.spent = w.spent ++ chosen.map (·.1) ∧ w'.keypairs = w.keypairs ∧ w'.unused = w.unused ∧
      w'.annotations = w.annotations ∧
      -- they are taken from the candidates in order
      (chosen.map (·.1)).Sublist (w.candidates bal) := by
  obtain ⟨chosen, collected, htake, hkeys, hlen, hin, hout, hw⟩ :=
    createSpend_ok w w' u bal amount fee recipient change sigs t h
  obtain ⟨⟨rest, hpre⟩, _, hget, htot, hge⟩ := takeUntil_some u _ _ _ _ _ htake
  rw [Nat.zero_add] at htot
  subst htot
  refine ⟨chosen, ?_⟩
  dsimp only
  refine ⟨hge, ?_, ?_, ?_, fun ro hro => ⟨hget ro hro, hkeys ro hro⟩, ?_, ?_, ?_, ?_, ?_, ?_⟩
  · rw [hout]
    by_cases hc : (chosen.map (·.2.value)).sum = amount + fee
    · simp [hc]
    · simp [hc, Nat.sub_add_eq]
  · rw [hin]; exact signedInputs_refs chosen sigs hlen
  · intro i hi
    rw [hin] at hi
    obtain ⟨s, hs⟩ := signedInputs_secp chosen sigs i hi
    rw [hs]; rfl
  · intro ro hro
    apply mem_candidates_not_spent w bal
    rw [hpre]
    exact List.mem_append_left _ (List.mem_map_of_mem hro)
  · rw [hw]
  · rw [hw]
  · rw [hw]
  · rw [hw]
  · rw [hpre]
    exact List.sublist_append_left _ _

/-- insufficient funds (or any other failure) leaves the wallet — in particular its record of
used outputs — unchanged: the function returns no new wallet at all, and … -/
theorem failure_is_insufficient_or_error (w : Wallet) (u : Utxo) (bal : PKBalances) (amount fee : Nat)
    (recipient change : Bytes) (sigs : List Bytes) (e : Err)
    (h : w.createSpend u bal amount fee recipient change sigs = .error e)
    (hall : ∀ r ∈ w.candidates bal, ∃ o, u.get? r = some o ∧ o.pk ∈ w.keys) :
    e = .other "Insufficient balance" ∨ e = .other "Can't sign this; no known private key in wallet" := by
  unfold Wallet.createSpend at h
  split at h
  · rename_i e' hplan
    simp only [Except.error.injEq] at h
    subst h
    unfold Wallet.planSpend at hplan
    split at hplan
    · rename_i e'' htake
      obtain ⟨r, hr, hn⟩ := takeUntil_error u _ _ _ _ htake
      obtain ⟨o, ho, _⟩ := hall r hr
      rw [hn] at ho
      simp at ho
    · simp only [Except.error.injEq] at hplan
      exact Or.inl hplan.symm
    · simp at hplan
  · rename_i chosen unsigned hplan
    split at h
    · rename_i e' hsign
      simp only [Except.error.injEq] at h
      subst h
      unfold Wallet.signTx at hsign
      split at hsign
      · simp at hsign
      · simp only [Except.error.injEq] at hsign
        exact Or.inr hsign.symm
    · simp at h

/-- … so a later affordable spend still succeeds exactly as if the failed attempt had never been
made (the wallet value is the same; stated for the record) -/
theorem later_affordable_succeeds (w : Wallet) (u : Utxo) (bal : PKBalances) (a₁ f₁ a₂ f₂ : Nat)
    (r c : Bytes) (s₁ s₂ : List Bytes) (e : Err) (res : Wallet × Tx)
    (_hfail : w.createSpend u bal a₁ f₁ r c s₁ = .error e)
    (hok : w.createSpend u bal a₂ f₂ r c s₂ = .ok res) :
    w.createSpend u bal a₂ f₂ r c s₂ = .ok res := hok

/-- insufficient funds exactly when the spendable candidates do not reach amount + fee -/
theorem insufficient_iff (w : Wallet) (u : Utxo) (bal : PKBalances) (amount fee : Nat)
    (hall : ∀ r ∈ w.candidates bal, ∃ o, u.get? r = some o)
    -- ADDED HYPOTHESIS: with `amount + fee = 0` and no candidates the loop never runs and the
    -- Python (and `takeUntil`) reports "Insufficient balance" although `0 < 0` is false
    (hpos : 0 < amount + fee) :
    takeUntil u (amount + fee) (w.candidates bal) 0 = .ok none ↔
      ((w.candidates bal).map (fun r => ((u.get? r).map (·.value)).getD 0)).sum < amount + fee := by
  have := takeUntil_none_iff u (amount + fee) (w.candidates bal) 0 hpos hall
  rw [Nat.zero_add] at this
  exact this

/-- successive spends never overlap: what a second spend uses is disjoint from the first -/
theorem successive_spends_disjoint (w w₁ w₂ : Wallet) (u : Utxo) (bal : PKBalances) (a₁ f₁ a₂ f₂ : Nat)
    (r c : Bytes) (s₁ s₂ : List Bytes) (t₁ t₂ : Tx)
    (h₁ : w.createSpend u bal a₁ f₁ r c s₁ = .ok (w₁, t₁))
    (h₂ : w₁.createSpend u bal a₂ f₂ r c s₂ = .ok (w₂, t₂)) :
    ∀ i ∈ t₁.inputs, ∀ j ∈ t₂.inputs, i.ref ≠ j.ref := by
  obtain ⟨ch₁, _, _, hin₁, _, _, _, hsp₁, _, _, _, _⟩ := spend_shape w w₁ u bal a₁ f₁ r c s₁ t₁ h₁
  obtain ⟨ch₂, _, _, hin₂, _, _, hns₂, _⟩ := spend_shape w₁ w₂ u bal a₂ f₂ r c s₂ t₂ h₂
  intro i hi j hj hij
  have h1 : i.ref ∈ ch₁.map (·.1) := by rw [← hin₁]; exact List.mem_map_of_mem hi
  have h2 : j.ref ∈ ch₂.map (·.1) := by rw [← hin₂]; exact List.mem_map_of_mem hj
  obtain ⟨ro, hro, hroj⟩ := List.mem_map.mp h2
  apply hns₂ ro hro
  rw [hsp₁, hroj, ← hij]
  exact List.mem_append_right _ h1

/-- the returned transaction passes full transaction validation at the head, provided the
signatures verify, the references listed for the wallet's keys are distinct, the amounts are in
range, and its encoding fits in one block.
`_partial`: the size condition `hsize` is forced — a wallet that needs 1 979 or more small
outputs builds a transaction above MAX_BLOCK_SIZE (known finding D7). -/
theorem spend_valid_partial (cs : CoinState) (u : Utxo) (w w' : Wallet) (bal : PKBalances) (amount fee : Nat)
    (recipient change : Bytes) (sigs : List Bytes) (t : Tx)
    (hu : headUtxo cs = some u)
    (h : w.createSpend u bal amount fee recipient change sigs = .ok (w', t))
    (hnd : (w.candidates bal).Nodup)
    (hsig : ∀ n (hn : n < t.inputs.length) o s, u.get? t.inputs[n].ref = some o → t.inputs[n].sig = .secp s →
      C.verify o.pk (encTx (signable t)) s = true)
    (hamount : 0 < amount) (hmax : ∀ l : List OutRef, l.Nodup →
      (l.map (fun r => ((u.get? r).map (·.value)).getD 0)).sum ≤ P.maxSashimi)
    (hnull : ∀ r ∈ w.candidates bal, r ≠ thinAir)
    (hsize : (encTx t).length ≤ P.maxBlockSize) :
    validateTxByItself P (CTx.fresh t) = .ok () ∧ validateTxAtHead C cs (CTx.fresh t) = .ok () := by
  obtain ⟨chosen, collected, htake, hkeys, hlen, hin, hout, hw⟩ :=
    createSpend_ok w w' u bal amount fee recipient change sigs t h
  obtain ⟨⟨rest, hpre⟩, hne, hget, htot, hge⟩ := takeUntil_some u _ _ _ _ _ htake
  rw [Nat.zero_add] at htot
  have hrefs : t.inputs.map (·.ref) = chosen.map (·.1) := by
    rw [hin]; exact signedInputs_refs chosen sigs hlen
  have hsub : (chosen.map (·.1)).Sublist (w.candidates bal) := by
    rw [hpre]; exact List.sublist_append_left _ _
  have hnodup : (chosen.map (·.1)).Nodup := hsub.nodup hnd
  have hvals := lookup_values u chosen hget
  have hcmax : collected ≤ P.maxSashimi := by
    have := hmax _ hnodup
    rw [hvals, ← htot] at this
    exact this
  -- the value sent
  have hov : outputsValue t.outputs = collected - fee ∧
      ∀ o ∈ t.outputs, 0 < o.value ∧ o.value ≤ P.maxSashimi := by
    rw [hout]
    by_cases hc : collected = amount + fee
    · simp only [hc, ne_eq, not_true_eq_false, if_false, List.append_nil, outputsValue, List.map_cons,
        List.map_nil, List.sum_cons, List.sum_nil, List.mem_singleton, forall_eq]
      refine ⟨by omega, hamount, by omega⟩
    · simp only [hc, ne_eq, not_false_eq_true, if_true, outputsValue, List.cons_append,
        List.nil_append, List.map_cons, List.map_nil, List.sum_cons, List.sum_nil, List.mem_cons,
        List.not_mem_nil, or_false, forall_eq_or_imp, forall_eq]
      refine ⟨by omega, ⟨hamount, by omega⟩, by omega, by omega⟩
  have hinputs : ∀ i ∈ t.inputs, ∃ o s, u.get? i.ref = some o ∧ i.sig = .secp s ∧
      C.verify o.pk (encTx (signable t)) s = true := by
    intro i hi
    obtain ⟨n, hn, rfl⟩ := List.mem_iff_getElem.mp hi
    have hr : t.inputs[n].ref ∈ chosen.map (·.1) := by rw [← hrefs]; exact List.mem_map_of_mem hi
    obtain ⟨ro, hro, hroe⟩ := List.mem_map.mp hr
    obtain ⟨s, hs⟩ := signedInputs_secp chosen sigs t.inputs[n] (by rw [← hin]; exact hi)
    have hg : u.get? t.inputs[n].ref = some ro.2 := by rw [← hroe]; exact hget ro hro
    exact ⟨ro.2, s, hg, hs, hsig n hn ro.2 s hg hs⟩
  constructor
  · apply (validateTxByItself_ok P _).mpr
    show t.inputs.length ≠ 0 ∧ t.outputs.length ≠ 0 ∧ (encTx t).length ≤ P.maxBlockSize ∧
      (∀ o ∈ t.outputs, 0 < o.value ∧ o.value ≤ P.maxSashimi) ∧
      (0 < outputsValue t.outputs ∧ outputsValue t.outputs ≤ P.maxSashimi) ∧
      (t.inputs.map (·.ref)).Nodup ∧ (∀ i ∈ t.inputs, i.ref ≠ thinAir) ∧
      (∀ i ∈ t.inputs, i.sig.isSecp = true)
    refine ⟨?_, ?_, hsize, hov.2, ?_, ?_, ?_, ?_⟩
    · intro hz
      have : (t.inputs.map (·.ref)).length = 0 := by simp [hz]
      rw [hrefs, List.length_map] at this
      exact hne (List.eq_nil_of_length_eq_zero this)
    · rw [hout]; simp
    · rw [hov.1]; omega
    · rw [hrefs]; exact hnodup
    · intro i hi
      apply hnull
      apply hsub.subset
      rw [← hrefs]; exact List.mem_map_of_mem hi
    · intro i hi
      obtain ⟨_, s, _, hs, _⟩ := hinputs i hi
      rw [hs]; rfl
  · unfold validateTxAtHead
    rw [hu]
    show validateTxInState C u (CTx.fresh t) = .ok ()
    unfold validateTxInState
    show (validateInputs C u t t.inputs >>= fun total =>
      require (decide (outputsValue t.outputs ≤ total)) "Transaction overspending") = .ok ()
    rw [validateInputs_of C u t t.inputs hinputs]
    have hsum : (t.inputs.map (fun i => ((u.get? i.ref).map (·.value)).getD 0)).sum = collected := by
      have : t.inputs.map (fun i => ((u.get? i.ref).map (·.value)).getD 0) =
          (t.inputs.map (·.ref)).map (fun r => ((u.get? r).map (·.value)).getD 0) := by
        rw [List.map_map]; rfl
      rw [this, hrefs, hvals, htot]
    rw [hsum]
    show require (decide (outputsValue t.outputs ≤ collected)) "Transaction overspending" = .ok ()
    rw [require_ok, decide_eq_true_eq, hov.1]
    omega

/-- non-vacuity: a concrete wallet where `createSpend` succeeds with exact change (100 − 60 − 5),
with no change output when the inputs match exactly, and fails on insufficient funds -/
example :
    let w : Wallet := ⟨[([1], [10])], [[1]], [], []⟩
    let u : Utxo := [(⟨[7], 0⟩, ⟨100, [1]⟩), (⟨[8], 0⟩, ⟨50, [1]⟩)]
    let bal : PKBalances := [([1], ⟨150, [⟨[7], 0⟩, ⟨[8], 0⟩]⟩)]
    w.createSpend u bal 60 5 [9] [1] [[5]] =
      .ok ({ w with spent := [⟨[7], 0⟩] }, ⟨[⟨⟨[7], 0⟩, .secp [5]⟩], [⟨60, [9]⟩, ⟨35, [1]⟩]⟩) ∧
    w.createSpend u bal 95 5 [9] [1] [[5]] =
      .ok ({ w with spent := [⟨[7], 0⟩] }, ⟨[⟨⟨[7], 0⟩, .secp [5]⟩], [⟨95, [9]⟩]⟩) ∧
    w.createSpend u bal 150 5 [9] [1] [[5], [6]] = .error (.other "Insufficient balance") := by
  refine ⟨?_, ?_, ?_⟩ <;> rfl
end C14
end Model

import Props.C12
import Props.C04

/-!
# C12 (continued) — the two chain-state hypotheses of `assembled_block_valid_partial` hold for
every chain state built from a well-formed arrival history
-/

namespace Model
namespace C12

variable (C : Crypto) (P : Params)

/-- the head of a built state is the id of a block of the history -/
theorem built_state_current_mem (bs : List Block) (s : CoinState) (hwf : WFArrivals C bs)
    (hf : foldBlocks C .empty bs = .ok s) : ∃ x ∈ bs, s.current = some (x.id C) := by
  have hcur := C04.head_is_first_max C bs s hwf hf
  have F := hwf.facts C
  cases hm : firstMax bs with
  | none => exact absurd hm (firstMax_ne_none F.ne)
  | some m =>
    rw [hm] at hcur
    exact ⟨m, firstMax_mem hm, hcur⟩

/-- the by-height index is stored for every block of the history -/
theorem built_state_index_all (bs : List Block) (s : CoinState) (hwf : WFArrivals C bs)
    (hf : foldBlocks C .empty bs = .ok s) (b : Block) (hb : b ∈ bs) :
    s.byHeightAt.get? (b.id C) ≠ none := by
  induction hwf generalizing s b with
  | genesis g h1 h2 h3 =>
    obtain ⟨-, -, hbh, -⟩ := add_ok_inv C (foldBlocks_single_ok C hf)
    rw [List.mem_singleton.1 hb, hbh h1]
    simp [Map.get?_cons]
  | snoc bs x p hwf hp hprev hht hnz hfresh ih =>
    obtain ⟨s₀, hf₀, ha⟩ := foldBlocks_snoc_ok C hf
    have F := hwf.facts C
    have hz : x.prev ≠ zeros 32 := by rw [hprev]; exact F.nz p hp
    obtain ⟨-, -, -, hbh, -⟩ := add_ok_inv C ha
    obtain ⟨bh, -, hbh⟩ := hbh hz
    rw [hbh]
    rcases List.mem_append.1 hb with hb | hb
    · have hne : x.id C ≠ b.id C := fun e => hfresh b hb e.symm
      rw [Map.get?_set_other _ _ _ _ hne]
      exact ih s₀ hf₀ b hb
    · rw [List.mem_singleton.1 hb, Map.get?_set_self]
      simp

/-- in a state built by `add_block_no_validation` from a well-formed arrival history the head's
id is not the all-zero parent reference of a genesis block … -/
theorem built_state_head_not_zero (bs : List Block) (s : CoinState) (hwf : WFArrivals C bs)
    (hf : foldBlocks C .empty bs = .ok s) : s.current ≠ some (zeros 32) := by
  obtain ⟨x, hx, hcur⟩ := built_state_current_mem C bs s hwf hf
  rw [hcur]
  intro h
  exact (hwf.facts C).nz x hx (Option.some.inj h)

/-- … and the by-height index of the head is stored -/
theorem built_state_head_index (bs : List Block) (s : CoinState) (hwf : WFArrivals C bs)
    (hf : foldBlocks C .empty bs = .ok s) : s.current.bind s.byHeightAt.get? ≠ none := by
  obtain ⟨x, hx, hcur⟩ := built_state_current_mem C bs s hwf hf
  rw [hcur, Option.bind_some]
  exact built_state_index_all C bs s hwf hf x hx

/-- hence: for every chain state built from a well-formed history, every pool satisfying the pool
invariant, and every clock, the block the miner assembles passes the node's own full validation
once its id is below target — provided it fits in one block, is above the checkpoint horizon and
its timestamp is at most 30 s ahead of the validating clock (the known finding D5 otherwise) -/
theorem assembled_block_valid_on_built_states (bs : List Block) (m : ChainMgr)
    (hwf : WFArrivals C bs) (hf : foldBlocks C .empty bs = .ok m.coinstate)
    (pk : Bytes) (clock nonce : Nat) (s : Summary) (h : Nat) (txs : List CTx) (now : Int)
    (hpool : C13.PoolInv C P m)
    (hc : minerCandidate C P m pk clock nonce = .ok (s, h, txs))
    (ev : Evidence) (hev : evidenceAfterScrypt C P m.coinstate (summaryHash C s h) s h txs = .ok ev)
    (hpow : bytesLt (C.sha256d (encHeader ⟨s, ev⟩)) s.target = true)
    (hclock : (s.timestamp : Int) ≤ now + P.maxFutureBlockTime)
    (hsize : (encBlock (Block.fresh ⟨s, ev⟩ txs)).length ≤ P.maxBlockSize)
    (hhor : P.maxKnownHeight < (h : Int)) (hint : 0 < P.retargetInterval) :
    ∃ cs', addBlock C P m.coinstate (Block.fresh ⟨s, ev⟩ txs) now = .ok cs' :=
  assembled_block_valid_partial C P m pk clock nonce s h txs now hpool hc ev hev hpow hclock hsize
    hhor hint (built_state_head_not_zero C bs m.coinstate hwf hf)
    (built_state_head_index C bs m.coinstate hwf hf)

end C12
end Model

import Proofs.Sync
import Proofs.Codec
import Gen.GetBlocksRange

/-!
GenTie.GetBlocksRule — the responder's search over the locator in `handle_get_blocks_message_received` (for / break / return /
else) and the bounds of the heights it lists, translated from the current source over declared atoms, are the model's
`inventoryReply.scan` and range: the first locator entry that the node stores **and** that is the parent of the active chain's
block one above it decides the start (`height + 1`); a stored entry with no active-chain block above it ends the search with
the empty reply; no usable entry means start at 1; the listing is `[start, min (start + batch) (head height + 1))`.
-/

set_option linter.unusedSimpArgs false
set_option linter.unusedVariables false

namespace GenTie
open Model

/-- the per-entry atoms of a locator hash against a chain state: stored?, the stored block's height, the hash as a number -/
def locatorAtoms (cs : CoinState) (h : Bytes) : Bool × Nat × Nat :=
  match cs.blocks.get? h with
  | none => (false, 0, bytesToNat h)
  | some blk => (true, blk.height, bytesToNat h)

/-- the global atoms read off the by-height index of the head -/
def indexHas (index : Map Nat Block) (h : Nat) : Bool := (index.get? h).isSome
def prevAt (index : Map Nat Block) (h : Nat) : Nat := match index.get? h with | some b => bytesToNat b.prev | none => 0

theorem bytesToNat_inj32 (a b : Bytes) (he : bytesToNat a = bytesToNat b) (ha : a.length = 32) (hb : b.length = 32) :
    a = b := by
  have h1 := Codec.natToBytes_bytesToNat a
  have h2 := Codec.natToBytes_bytesToNat b
  rw [ha] at h1
  rw [hb] at h2
  rw [← h1, ← h2, he]

/-- the translated search is the model's scan, for locator hashes and parent references of one length (32 bytes in the
protocol; `bytesToNat` is injective on byte strings of equal length) -/
theorem loop_is_scan (cs : CoinState) (index : Map Nat Block)
    (hprev : ∀ h b, index.get? h = some b → b.prev.length = 32) :
    ∀ (loc : List Bytes), (∀ x ∈ loc, x.length = 32) →
      Gen.get_blocks_range.loop (indexHas index) (prevAt index) (loc.map (locatorAtoms cs)) =
        (match inventoryReply.scan cs index loc with
          | none => none
          | some none => none
          | some (some s) => some s) := by
  intro loc
  induction loc with
  | nil => intro _; simp [Gen.get_blocks_range.loop, inventoryReply.scan]
  | cons h rest ih =>
    intro hlen
    have hh : h.length = 32 := hlen h (List.mem_cons_self)
    have hrest : ∀ x ∈ rest, x.length = 32 := fun x hx => hlen x (List.mem_cons_of_mem _ hx)
    simp only [List.map_cons, inventoryReply.scan]
    cases hb : cs.blocks.get? h with
    | none =>
      have ha : locatorAtoms cs h = (false, 0, bytesToNat h) := by simp [locatorAtoms, hb]
      rw [ha, Gen.get_blocks_range.loop]
      simp [ih hrest]
    | some blk =>
      have ha : locatorAtoms cs h = (true, blk.height, bytesToNat h) := by simp [locatorAtoms, hb]
      rw [ha, Gen.get_blocks_range.loop]
      cases hi : index.get? (blk.height + 1) with
      | none => simp [indexHas, hi]
      | some nxt =>
        have hnl : nxt.prev.length = 32 := hprev _ _ hi
        by_cases hp : nxt.prev = h
        · simp [indexHas, prevAt, hi, hp]
        · have : ¬ bytesToNat nxt.prev = bytesToNat h := fun he => hp (bytesToNat_inj32 _ _ he hnl hh)
          simp [indexHas, prevAt, hi, hp, this, ih hrest]

/-- the bounds of the listing -/
theorem range_eq (indexHas' : Nat → Bool) (prevAt' : Nat → Nat) (loc : List (Bool × Nat × Nat)) (headHeight : Nat) :
    Gen.get_blocks_range indexHas' prevAt' loc headHeight =
      (Gen.get_blocks_range.loop indexHas' prevAt' loc).map
        (fun s => (s, min (s + Gen.GET_BLOCKS_INVENTORY_SIZE) (headHeight + 1))) := by
  unfold Gen.get_blocks_range
  cases Gen.get_blocks_range.loop indexHas' prevAt' loc <;> rfl

/-- whenever the model answers a request, the number of ids it lists is what the translated bounds say -/
theorem model_reply_length_as_translated (C : Crypto) (cs : CoinState) (loc ids : List Bytes)
    (h : inventoryReply C Gen.params cs loc = .ok ids)
    (hloc : ∀ x ∈ loc, x.length = 32) :
    ∃ index hd, cs.current.bind cs.byHeightAt.get? = some index ∧ cs.head = some hd ∧
      ((∀ hh b, index.get? hh = some b → b.prev.length = 32) →
        match Gen.get_blocks_range (indexHas index) (prevAt index) (loc.map (locatorAtoms cs)) hd.height with
        | none => ids = []
        | some (a, b) => ids.length = b - a) := by
  obtain ⟨index, hd, hidx, hhd, hcase⟩ := inventoryReply_ok C Gen.params cs loc ids h
  refine ⟨index, hd, hidx, hhd, ?_⟩
  intro hprev
  rw [range_eq, loop_is_scan cs index hprev loc hloc]
  have hI : Gen.params.inventorySize = Gen.GET_BLOCKS_INVENTORY_SIZE := rfl
  rcases hcase with ⟨hs | hs, rfl⟩ | ⟨start, hs, hl, _⟩
  · simp [hs]
  · simp [hs]
  · simp only [hs, Option.map_some]
    rw [hI] at hl
    exact hl

end GenTie

import Proofs.Validation
import Gen.SummaryInStateOk

/-!
GenTie.SummaryRule — the decision of `validate_block_summary_in_coinstate`, translated from the current source over declared
atoms, is the model's: parent known, timestamp strictly later than the parent's, target equal to the target computed **for
height parent + 1** at the block's own timestamp.
-/

set_option linter.unusedSimpArgs false
set_option linter.unusedVariables false

namespace GenTie
open Model

theorem summary_in_state_ok_eq (unk : Bool) (ts pts ph : Nat) (target : Bytes) (targetAt : Nat → Bytes) :
    Gen.summary_in_state_ok unk ts pts ph target targetAt =
      (!unk && decide (pts < ts) && decide (target = targetAt (ph + 1))) := by
  unfold Gen.summary_in_state_ok
  cases unk
  · by_cases h1 : pts < ts
    · have h1' : ¬ ts ≤ pts := by omega
      by_cases h2 : target = targetAt (ph + 1) <;> simp [h1, h1', h2]
    · have h1' : ts ≤ pts := by omega
      simp [h1, h1']
  · simp

/-- `validateSummaryInState` succeeds exactly when the translated decision says so, the target atom being the model's
`calcTarget` for the height the translated code asks for -/
theorem model_summary_in_state_as_translated (C : Crypto) (cs : CoinState) (s : Summary) (pb : Block)
    (hpb : cs.blocks.get? s.prev = some pb) (t : Bytes)
    (ht : calcTarget C Gen.params cs (pb.height + 1) s.timestamp pb = .ok t) :
    validateSummaryInState C Gen.params cs s = .ok () ↔
      Gen.summary_in_state_ok false s.timestamp pb.timestamp pb.height s.target
        (fun h => if h = pb.height + 1 then t else []) = true := by
  unfold validateSummaryInState
  rw [hpb, summary_in_state_ok_eq]
  simp [ht, bind, Except.bind, require]
  by_cases h1 : pb.timestamp < s.timestamp <;> by_cases h2 : s.target = t <;> simp [h1, h2]

/-- an unknown parent is refused by both -/
theorem model_summary_unknown_parent (C : Crypto) (cs : CoinState) (s : Summary) (h : cs.blocks.get? s.prev = none)
    (ts pts ph : Nat) (tg : Bytes) (f : Nat → Bytes) :
    validateSummaryInState C Gen.params cs s ≠ .ok () ∧ Gen.summary_in_state_ok true ts pts ph tg f = false := by
  constructor
  · unfold validateSummaryInState; rw [h]; simp [verr]
  · rw [summary_in_state_ok_eq]; simp

end GenTie

import Props.GenTie.Order
import Gen.MinerFoundEffects

/-!
GenTie.OrderRules — statements about the handlers **as translated**, with no model in between: for every value of the atoms the
effect tree reads, what may happen before what. They are what the corresponding properties say about the order of the code's own
statements (C09, C12, C13, C08), and they are robust: a rewrite that keeps the order re-proves them by the same case analysis.
-/

namespace GenTie

/-- C12: the miner's found-block handler installs, relays, buffers and flushes only after its own full validation added the block -/
theorem miner_found_orders (not_a_solution add_ok : Bool) :
    let e := (Gen.miner_found_effects not_a_solution add_ok).1
    (not_a_solution = true → e = []) ∧
    ("adopt_validated" ∈ e → add_ok = true ∧ precededBy e "adopt_validated" ["validate_and_add"] = true) ∧
    ("broadcast" ∈ e → precededBy e "broadcast" ["validate_and_add", "adopt_validated"] = true) ∧
    ("flush" ∈ e → precededBy e "flush" ["validate_and_add", "adopt_validated", "buffer"] = true) := by
  cases not_a_solution <;> cases add_ok <;> decide

end GenTie

import Proofs.Chain
import Gen.HeadSwitches

/-!
GenTie.Head — the statement of `CoinState.add_block_no_validation` that decides the new head, and `Block.get_total_work`,
as translated from the current source on this run, are the model's head choice: the added block becomes the head exactly
when there was no head, or it extends the head, or it is strictly higher than the head (ties keep the first-seen).
-/

set_option linter.unusedSimpArgs false

namespace GenTie
open Model

/-- "work" is the height (the code's placeholder) -/
theorem get_total_work_eq (h : Nat) (t : Bytes) : Gen.get_total_work h t = h := by
  first
  | rfl
  | (simp [Gen.get_total_work]; done)

theorem head_switches_eq (cn cp : Bool) (nh : Nat) (nt : Bytes) (hh : Nat) (ht : Bytes) :
    Gen.head_switches cn cp nh nt hh ht = (cn || cp || decide (nh > hh)) := by
  unfold Gen.head_switches
  simp only [get_total_work_eq]
  cases cn <;> cases cp <;> by_cases h : nh > hh <;> simp [h]

/-- the model's `addBlockNoValidation` chooses the head as the translated statement does, in each of the three
situations the code distinguishes (no head yet / the block extends the head / a fork) -/
theorem model_head_is_translated_choice (C : Crypto) (cs cs' : CoinState) (b : Block)
    (h : addBlockNoValidation C cs b = .ok cs') :
    (cs.current = none →
      cs'.current = some (if Gen.head_switches true false b.height b.target 0 [] then b.id C else b.id C)
      ∧ ∀ cp nh nt hh ht, Gen.head_switches true cp nh nt hh ht = true) ∧
    (∀ c, cs.current = some c → c = b.prev →
      cs'.current = some (b.id C) ∧ ∀ nh nt hh ht, Gen.head_switches false true nh nt hh ht = true) ∧
    (∀ c, cs.current = some c → c ≠ b.prev → ∃ cb, cs.blocks.get? c = some cb ∧
      cs'.current = some (if Gen.head_switches false false b.height b.target cb.height cb.target
                          then b.id C else c)) := by
  obtain ⟨_, _, _, _, h1, h2, h3⟩ := add_ok_inv C h
  refine ⟨?_, ?_, ?_⟩
  · intro hn
    refine ⟨by simp [h1 hn], ?_⟩
    intro cp nh nt hh ht; simp [head_switches_eq]
  · intro c hc hp
    refine ⟨h2 c hc hp, ?_⟩
    intro nh nt hh ht; simp [head_switches_eq]
  · intro c hc hp
    obtain ⟨cb, hcb, hcur⟩ := h3 c hc hp
    refine ⟨cb, hcb, ?_⟩
    rw [hcur, head_switches_eq]
    simp

end GenTie

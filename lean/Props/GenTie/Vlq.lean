import Proofs.Vlq
import Gen.StreamSerializeVlq
import Gen.StreamDeserializeVlq

/-!
GenTie.Vlq — the variable-length integer code of `skepticoin/serialization.py`, as translated from the current source
on this run (`stream_serialize_vlq`: the integers handed to `struct.pack("B", ·)`, in order; `stream_deserialize_vlq`:
structural recursion over the unread bytes), is the model's `encodeVlq` / strict `decodeVlq`.
-/

set_option linter.unusedSimpArgs false
set_option linter.unusedVariables false

namespace GenTie
open Model

/-! ### reader -/

/-- what the code's read loop makes of the model's loop result -/
def readResult : Option (Nat × Nat × Bytes) → Except String (Nat × Bytes)
  | none => .error "SerializationTruncationError"
  | some (v, n, rest) => if n = vlqLen v then .ok (v, rest) else .error "DeserializationError"

theorem vlq_loop_eq : ∀ (bs : Bytes) (acc n : Nat),
    Gen.stream_deserialize_vlq.loop bs acc n = readResult (decodeVlqAux bs acc n) := by
  intro bs
  induction bs with
  | nil => intro acc n; simp [Gen.stream_deserialize_vlq.loop, decodeVlqAux, readResult]
  | cons b rest ih =>
    intro acc n
    rw [Gen.stream_deserialize_vlq.loop, decodeVlqAux]
    by_cases hb : b.toNat < 128
    · by_cases hn : n + 1 = vlqLen (acc + b.toNat % 128)
      · have hn' : n + 1 = bitLen (acc + b.toNat % 128) / 7 + 1 := hn
        simp [hb, readResult, hn, hn']
        simp [vlqLen]
      · have hn' : ¬ (n + 1 = bitLen (acc + b.toNat % 128) / 7 + 1) := hn
        simp [hb, readResult, hn, hn']
        omega
    · simp [hb, ih]

/-- the translated reader returns exactly what the model's strict decoder returns (value and unread rest), and fails
exactly when it fails -/
theorem stream_deserialize_vlq_eq (bs : Bytes) :
    (Gen.stream_deserialize_vlq bs).toOption = decodeVlq bs := by
  unfold Gen.stream_deserialize_vlq decodeVlq
  simp only [vlq_loop_eq]
  cases h : decodeVlqAux bs 0 0 with
  | none => simp [readResult, Except.toOption]
  | some r =>
    obtain ⟨v, n, rest⟩ := r
    by_cases hn : n = vlqLen v <;> simp [readResult, hn, Except.toOption]

/-- the two failures are told apart as the code tells them apart: input exhausted vs. non-canonical encoding -/
theorem stream_deserialize_vlq_error (bs : Bytes) (e : String) (h : Gen.stream_deserialize_vlq bs = .error e) :
    (e = "SerializationTruncationError" ∧ decodeVlqAux bs 0 0 = none) ∨
    (e = "DeserializationError" ∧ ∃ v n r, decodeVlqAux bs 0 0 = some (v, n, r) ∧ n ≠ vlqLen v) := by
  unfold Gen.stream_deserialize_vlq at h
  simp only [vlq_loop_eq] at h
  cases hd : decodeVlqAux bs 0 0 with
  | none => rw [hd] at h; simp [readResult] at h; exact Or.inl ⟨h.symm, rfl⟩
  | some r =>
    obtain ⟨v, n, rest⟩ := r
    rw [hd] at h
    by_cases hn : n = vlqLen v
    · simp [readResult, hn] at h
    · simp [readResult, hn] at h
      exact Or.inr ⟨h.symm, v, n, rest, rfl, hn⟩

/-! ### writer -/

/-- one iteration of the code's loop: the state is (integers written so far, `mod`) -/
def wstep (i : Nat) (st : List Nat × Nat) (j : Nat) : List Nat × Nat :=
  (st.1 ++ [((if decide (st.2 ≠ 0) then (i % st.2) else i) / (128 ^ j)) + (if (decide (j > 0)) then 128 else 0)], 128 ^ j)

theorem toNat_digit_last (i : Nat) : (UInt8.ofNat (i % 128)).toNat = i % 128 := by
  rw [UInt8.toNat_ofNat']; omega

theorem toNat_digit_cont (x : Nat) : (UInt8.ofNat (x % 128 + 128)).toNat = x % 128 + 128 := by
  rw [UInt8.toNat_ofNat']; omega

theorem wfold_digits (i : Nat) : ∀ (k : Nat) (out : List Nat),
    ((List.range k).reverse.foldl (wstep i) (out, 128 ^ k)).1 = out ++ (vlqDigits i k).map UInt8.toNat := by
  intro k
  induction k with
  | zero => intro out; simp [vlqDigits]
  | succ k ih =>
    intro out
    rw [List.range_succ, List.reverse_append, List.reverse_singleton, List.singleton_append, List.foldl_cons]
    have hp : (128 : Nat) ^ (k + 1) ≠ 0 := by have := Nat.pow_pos (n := k + 1) (show 0 < 128 by omega); omega
    have hstep : wstep i (out, 128 ^ (k + 1)) k
        = (out ++ [(i / 128 ^ k) % 128 + (if k > 0 then 128 else 0)], 128 ^ k) := by
      unfold wstep
      simp only [hp, ne_eq, not_false_eq_true, decide_true, if_true]
      rw [Nat.pow_succ, Nat.mod_mul_right_div_self]
      simp
    rw [hstep, ih]
    cases k with
    | zero => simp [vlqDigits, toNat_digit_last]; omega
    | succ k' =>
      rw [vlqDigits]
      simp [toNat_digit_cont]; omega

/-- the other known shape of the loop: no carried variable, digit `(i // 128^j) % 128` -/
def wstepB (i : Nat) (out : List Nat) (j : Nat) : List Nat :=
  out ++ [((i / (128 ^ j)) % 128) + (if (decide (j > 0)) then 128 else 0)]

theorem wfoldB_digits (i : Nat) : ∀ (k : Nat) (out : List Nat),
    (List.range k).reverse.foldl (wstepB i) out = out ++ (vlqDigits i k).map UInt8.toNat := by
  intro k
  induction k with
  | zero => intro out; simp [vlqDigits]
  | succ k ih =>
    intro out
    rw [List.range_succ, List.reverse_append, List.reverse_singleton, List.singleton_append, List.foldl_cons, ih]
    cases k with
    | zero => simp [wstepB, vlqDigits, toNat_digit_last]; omega
    | succ k' =>
      rw [vlqDigits]
      simp [wstepB, toNat_digit_cont]; omega

/-- the integers the translated writer hands to `struct.pack("B", ·)` are the model's encoding, byte for byte — in
particular each lies in 0..255, so the packing never raises. Two shapes of the loop are known to the proof: the one with
the carried `mod` (`(i % mod if mod else i) // div`) and the plain one (`(i // 128**j) % 128`). -/
theorem stream_serialize_vlq_eq (i : Nat) :
    Gen.stream_serialize_vlq i = (encodeVlq i).map UInt8.toNat := by
  first
  | (have hu : Gen.stream_serialize_vlq i
        = ((List.range (bitLen i / 7 + 1)).reverse.foldl (wstep i) ([], 0)).1 := rfl
     rw [hu]
     have hlt := lt_pow_vlqLen i
     unfold encodeVlq vlqLen at *
     generalize bitLen i / 7 = m at *
     rw [List.range_succ, List.reverse_append, List.reverse_singleton, List.singleton_append, List.foldl_cons]
     have h0 : wstep i ([], 0) m = wstep i ([], 128 ^ (m + 1)) m := by
       have hp : (128 : Nat) ^ (m + 1) ≠ 0 := by have := Nat.pow_pos (n := m + 1) (show 0 < 128 by omega); omega
       unfold wstep
       simp only [hp, ne_eq, not_false_eq_true, decide_true, if_true, not_true_eq_false, decide_false]
       rw [Nat.mod_eq_of_lt hlt]
       simp
     rw [h0]
     have := wfold_digits i (m + 1) []
     rw [List.range_succ, List.reverse_append, List.reverse_singleton, List.singleton_append, List.foldl_cons] at this
     simpa using this)
  | (have hu : Gen.stream_serialize_vlq i
        = (List.range (bitLen i / 7 + 1)).reverse.foldl (wstepB i) [] := rfl
     rw [hu, wfoldB_digits]
     simp [encodeVlq, vlqLen])

theorem stream_serialize_vlq_in_byte_range (i : Nat) : ∀ x ∈ Gen.stream_serialize_vlq i, x < 256 := by
  intro x hx
  rw [stream_serialize_vlq_eq] at hx
  obtain ⟨b, _, rfl⟩ := List.mem_map.mp hx
  exact b.toNat_lt

/-- hence, for the translated code itself: reading back what was written yields the value and leaves the rest; and
any bytes the reader accepts are the bytes the writer writes for the value it returns (single encoding) -/
theorem translated_roundtrip (i : Nat) (r : Bytes) :
    (Gen.stream_deserialize_vlq ((Gen.stream_serialize_vlq i).map UInt8.ofNat ++ r)).toOption = some (i, r) := by
  rw [stream_deserialize_vlq_eq, stream_serialize_vlq_eq]
  have : ((encodeVlq i).map UInt8.toNat).map UInt8.ofNat = encodeVlq i := by
    rw [List.map_map]
    conv => rhs; rw [← List.map_id (encodeVlq i)]
    apply List.map_congr_left
    intro b _
    simp [Function.comp, ofNat_toNat_u8]
  rw [this]
  exact decodeVlq_encodeVlq i r

theorem translated_canonical (bs : Bytes) (v : Nat) (r : Bytes)
    (h : (Gen.stream_deserialize_vlq bs).toOption = some (v, r)) :
    bs = (Gen.stream_serialize_vlq v).map UInt8.ofNat ++ r := by
  rw [stream_deserialize_vlq_eq] at h
  rw [stream_serialize_vlq_eq]
  have : ((encodeVlq v).map UInt8.toNat).map UInt8.ofNat = encodeVlq v := by
    rw [List.map_map]
    conv => rhs; rw [← List.map_id (encodeVlq v)]
    apply List.map_congr_left
    intro b _
    simp [Function.comp, ofNat_toNat_u8]
  rw [this]
  exact encodeVlq_of_decodeVlq bs v r h

end GenTie

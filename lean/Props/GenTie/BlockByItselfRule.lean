import Proofs.Validation
import Gen.BlockByItselfOk

/-!
GenTie.BlockByItselfRule — the decision of `validate_block_by_itself`, translated from the current source over declared atoms,
is the model's: header rules, at least one transaction, size limit, reward transaction well-formed and carrying the block's
height, **every** other transaction well-formed, no duplicate transactions, no output referenced twice, and the header's
commitment equal to the commitment computed from the body.
-/

set_option linter.unusedSimpArgs false
set_option linter.unusedVariables false

namespace GenTie
open Model

theorem bbi_loop_eq : ∀ (others : List Bool),
    Gen.block_by_itself_ok.loop others = if others.all id then some () else none := by
  intro others
  induction others with
  | nil => simp [Gen.block_by_itself_ok.loop]
  | cons x rest ih =>
    rw [Gen.block_by_itself_ok.loop]
    cases x <;> simp [ih]

/-- the translated decision, in closed form -/
theorem block_by_itself_ok_eq (headerOk : Bool) (n size : Nat) (cbOk : Bool) (cbHeight height : Nat) (others : List Bool)
    (noDupTxs noDupRefs : Bool) (merkle computed : Bytes) :
    Gen.block_by_itself_ok headerOk n size cbOk cbHeight height others noDupTxs noDupRefs merkle computed =
      (headerOk && decide (n ≠ 0) && decide (size ≤ Gen.MAX_BLOCK_SIZE) && cbOk && decide (cbHeight = height) &&
        others.all id && noDupTxs && noDupRefs && decide (merkle = computed)) := by
  unfold Gen.block_by_itself_ok
  simp only [bbi_loop_eq]
  generalize others.all id = a
  by_cases h1 : n = 0 <;> by_cases h2 : size ≤ Gen.MAX_BLOCK_SIZE <;> by_cases h3 : cbHeight = height <;>
    by_cases h4 : merkle = computed <;>
    cases headerOk <;> cases cbOk <;> cases a <;> cases noDupTxs <;> cases noDupRefs <;>
    simp [h1, h2, h3, h4] <;> omega

/-! ### the model's validator decides as the translated function does -/

def okB' {α : Type} (x : Except Err α) : Bool := match x with | .ok _ => true | .error _ => false

theorem model_block_by_itself_as_translated (C : Crypto) (b : Block) (now : Int) (cb : CTx) (rest : List CTx) (r : Bytes)
    (htx : b.txs = cb :: rest) (hroot : calcMerkleRoot C b.txs = some r) :
    validateBlockByItself C Gen.params b now = .ok () ↔
      Gen.block_by_itself_ok (okB' (validateHeaderByItself C Gen.params b.header now)) b.txs.length (encBlock b).length
        (okB' (validateCoinbaseByItself Gen.params cb))
        (match validateCoinbaseByItself Gen.params cb with | .ok h => h | .error _ => 0) b.height
        (rest.map fun t => okB' (validateTxByItself Gen.params t)) (noDuplicateTxs C rest)
        (decide (allRefs rest).Nodup) b.header.summary.merkleRoot r = true := by
  rw [block_by_itself_ok_eq]
  generalize hA : (rest.map fun t => okB' (validateTxByItself Gen.params t)).all id = A
  have hA' : A = true ↔ forAll (validateTxByItself Gen.params) rest = .ok () := by
    rw [← hA, forAll_ok]
    simp only [List.all_map, List.all_eq_true, Function.comp, id]
    constructor
    · intro h t ht
      have := h t ht
      cases hv : validateTxByItself Gen.params t with
      | error e => simp [okB', hv] at this
      | ok u => rfl
    · intro h t ht
      simp [okB', h t ht]
  unfold validateBlockByItself
  have hmb : Gen.params.maxBlockSize = Gen.MAX_BLOCK_SIZE := rfl
  rw [hroot]
  simp only [htx, List.length_cons]
  cases hh : validateHeaderByItself C Gen.params b.header now with
  | error e => simp [okB', bind, Except.bind]
  | ok _ =>
    simp only [okB', bind, Except.bind, Bool.true_and]
    by_cases hs : (encBlock b).length ≤ Gen.MAX_BLOCK_SIZE
    · simp only [hmb, hs, require, decide_true, ↓reduceIte]
      cases hc : validateCoinbaseByItself Gen.params cb with
      | error e => simp
      | ok h =>
        simp only [Bool.true_and]
        by_cases hhe : h = b.height
        · simp only [hhe, decide_true, ↓reduceIte, Bool.true_and]
          cases hf : forAll (validateTxByItself Gen.params) rest with
          | error e =>
            have hAf : A = false := by
              cases A
              · rfl
              · rw [hA'.mp rfl] at hf; cases hf
            simp [hAf]
          | ok u =>
            have hAt : A = true := hA'.mpr (by rw [hf])
            simp only [hAt, Bool.true_and]
            cases hd : noDuplicateTxs C rest
            · simp
            · simp only [↓reduceIte, Bool.true_and]
              by_cases hn : (allRefs rest).Nodup
              · simp only [hn, decide_true, ↓reduceIte, Bool.true_and]
                by_cases hm : r = b.header.summary.merkleRoot
                · subst hm; simp
                · have hm' : ¬ b.header.summary.merkleRoot = r := fun h => hm h.symm
                  simp [hm, hm']
              · simp [hn]
        · simp [hhe]
    · simp [hmb, hs, require]

end GenTie

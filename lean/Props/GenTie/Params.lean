import Gen.Params

/-!
The constants regenerated from /repo are the documented ones. A changed constant in
skepticoin/params.py, networking/params.py or disk_interface.py breaks one of these.
-/

namespace GenTie

/-- C16 / C02: 10 coin of 10^8 sashimi, halving every 1,050,000 blocks, 20,999,999.8635 coin -/
theorem monetary_params :
    Gen.params.initialSubsidy = 10 * 100000000 ∧ Gen.params.halvingInterval = 1050000 ∧
    Gen.params.maxSashimi = 2099999986350000 ∧ Gen.SASHIMI_PER_COIN = 100000000 := by decide

/-- C05: 10,080-block period, 1,209,600 s, 30 s into the future -/
theorem header_params :
    Gen.params.retargetInterval = 10080 ∧ Gen.params.retargetTimespan = 1209600 ∧
    Gen.params.maxFutureBlockTime = 30 := by decide

/-- C05 / C12: limits used by validation and sampling -/
theorem size_params :
    Gen.params.maxBlockSize = 200000 ∧ Gen.params.maxCoinbaseData = 200 ∧
    Gen.params.sampleCount = 8 ∧ Gen.params.sampleSize = 4 ∧
    Gen.params.sampleCount * Gen.params.sampleSize = 32 := by decide

/-- C19: 10 s doubling to 30 min, give up after 2880, peer file of 100 -/
theorem peer_params :
    Gen.params.timeToSecondAttempt = 10 ∧ Gen.params.maxTimeBetweenAttempts = 1800 ∧
    Gen.params.maxConnectionAttempts = 2880 ∧ Gen.params.peersFileMax = 100 := by decide

/-- C11 / C10: framing and inventory -/
theorem net_params :
    Gen.MAGIC = [77, 65, 74, 73] ∧ Gen.params.maxMessageSize = 32 * 1024 * 1024 ∧
    Gen.params.inventorySize = 500 ∧ Gen.params.ibdValidationSkip = 10000 := by decide

end GenTie

import Model.Node
import Gen.HandleBlockEffects

/-!
GenTie.HandleBlockRule — `ConnectedRemotePeer.handle_block_received`, translated from the current source as a decision tree
over declared atoms whose leaves are the effects performed in order (and whether an exception escapes), is the model's
`handleBlockReceived`: running the translated effect list on the model's node state gives exactly the model's resulting node,
and an exception escapes in the translated tree exactly when the model reports one — for every node state, connection, block,
clock and reply flag.

In particular the block is applied to the prior state **before** it is put into the store's write buffer, a rejection by
in-state validation rolls back to the last validated state and clears the buffer, an accepted block is flushed, and only an
unsolicited new head is relayed.
-/

set_option linter.unusedSimpArgs false
set_option linter.unusedVariables false

namespace GenTie
open Model

/-- what each effect token does to the model's node -/
def runEffect (C : Crypto) (c : Nat) (b : Block) (changed : CoinState) (n : Node) : String → Node
  | "remove_from_inventory" =>
      n.updatePeer c fun p => { p with pendingInventory := p.pendingInventory.erase (b.id C) }
  | "apply" => n                                   -- computes the changed chain state; the node is untouched
  | "buffer" => { n with wbuf := n.wbuf ++ [b] }
  | "rollback" =>
      { n with mgr := match n.mgr.lastValid with | some lv => setCoinstate C n.mgr lv true | none => n.mgr }
  | "clear_buffer" => { n with wbuf := [] }
  | "adopt_validated" => { n with mgr := setCoinstate C n.mgr changed true }
  | "flush" => Node.flush C n
  | "adopt_unvalidated" => { n with mgr := setCoinstate C n.mgr changed false }
  | "broadcast" => n.broadcast (.block b 0)
  | _ => n

def okB2 {α : Type} (x : Except Err α) : Bool := match x with | .ok _ => true | .error _ => false

theorem updatePeer_mgr (n : Node) (c : Nat) (f : PeerSt → PeerSt) : (n.updatePeer c f).mgr = n.mgr := rfl
theorem updatePeer_wbuf (n : Node) (c : Nat) (f : PeerSt → PeerSt) : (n.updatePeer c f).wbuf = n.wbuf := rfl

/-- the refinement: the model's handler is the translated effect tree, run on the model's state -/
theorem model_handler_is_translated_effects (C : Crypto) (n : Node) (c irt : Nat) (b : Block) (now : Int)
    (changed : CoinState)
    (happly : ∀ cs, addBlockNoValidation C n.mgr.coinstate b = .ok cs → cs = changed)
    (hhead : ∀ cs, addBlockNoValidation C n.mgr.coinstate b = .ok cs → cs.head.isSome) :
    let prior := n.mgr.coinstate
    let eff := Gen.handle_block_effects (prior.blocks.contains (b.id C)) (prior.blocks.contains b.prev)
      (okB2 (validateBlockByItself C Gen.params b now)) (okB2 (addBlockNoValidation C prior b)) (decide (irt = 0))
      b.height (okB2 (validateBlockInState C Gen.params prior b)) n.mgr.lastValid.isSome
      (match changed.head with | some hd => blockEq b hd | none => false)
    (handleBlockReceived C Gen.params n c irt b now).1 = eff.1.foldl (runEffect C c b changed) n ∧
    ((handleBlockReceived C Gen.params n c irt b now).2.isSome = eff.2) := by
  intro prior eff
  have hskip : Gen.params.ibdValidationSkip = Gen.IBD_VALIDATION_SKIP := rfl
  unfold handleBlockReceived
  simp only [eff, prior, Gen.handle_block_effects, hskip]
  by_cases hk : n.mgr.coinstate.blocks.contains (b.id C) = true
  · simp [hk, runEffect]
  · have hk' : n.mgr.coinstate.blocks.contains (b.id C) = false := by simpa using hk
    simp only [hk', Bool.false_eq_true, ↓reduceIte, Bool.not_false]
    by_cases hp : n.mgr.coinstate.blocks.contains b.prev = true
    · simp only [hp, Bool.not_true, Bool.false_eq_true, ↓reduceIte]
      cases hv : validateBlockByItself C Gen.params b now with
      | error e => simp [okB2, runEffect]
      | ok _ =>
        simp only [okB2, ↓reduceIte]
        cases ha : addBlockNoValidation C n.mgr.coinstate b with
        | error e => simp [runEffect]
        | ok cs =>
          have hcs : cs = changed := happly cs ha
          subst hcs
          have hhd := hhead cs ha
          obtain ⟨hd, hhd'⟩ := Option.isSome_iff_exists.mp hhd
          simp only [Bool.not_true, Bool.false_eq_true, ↓reduceIte, hhd']
          by_cases hu : irt = 0
          · simp only [hu, decide_true, Bool.true_or, true_or, ↓reduceIte, Bool.and_true]
            cases hs : validateBlockInState C Gen.params n.mgr.coinstate b with
            | error e =>
              cases hl : n.mgr.lastValid with
              | none => simp [runEffect, updatePeer_mgr, hl]
              | some lv => simp [runEffect, updatePeer_mgr, hl]
            | ok _ =>
              by_cases hh : blockEq b hd = true
              · simp [runEffect, hh]
              · have hh' : blockEq b hd = false := by simpa using hh
                simp [runEffect, hh']
          · simp only [hu, decide_false, Bool.false_or, false_or, Bool.and_false, Bool.false_eq_true, ↓reduceIte]
            by_cases hm : b.height % Gen.IBD_VALIDATION_SKIP = 0
            · simp only [hm, decide_true, ↓reduceIte]
              cases hs : validateBlockInState C Gen.params n.mgr.coinstate b with
              | error e =>
                cases hl : n.mgr.lastValid with
                | none => simp [runEffect, updatePeer_mgr, hl]
                | some lv => simp [runEffect, updatePeer_mgr, hl]
              | ok _ => simp [runEffect]
            · simp [hm, runEffect]
    · have hp' : n.mgr.coinstate.blocks.contains b.prev = false := by simpa using hp
      simp [hp', runEffect]

end GenTie

import Proofs.Validation
import Model.Node
import Gen.SetCoinstateEffects
import Gen.AddToPoolEffects

/-!
GenTie.PoolRule — `ChainManager.set_coinstate` and `ChainManager.add_transaction_to_pool`, translated from the current source as
effect trees, are the model's `setCoinstate` and `addTxToPool`:

* `set_coinstate`: the new state is installed, the pool is cleaned against it — **always** — and the last validated state is
  updated exactly when `validated`;
* `add_transaction_to_pool`: the three validations run in order **before** anything is appended; a `ValidateTransactionError`
  from any of them means "not admitted" (pool untouched), any other exception escapes (pool untouched), and only when all three
  return is the transaction appended.
-/

set_option linter.unusedSimpArgs false
set_option linter.unusedVariables false

namespace GenTie
open Model

/-! ### set_coinstate -/

def runMgrEffect (C : Crypto) (cs : CoinState) (m : ChainMgr) : String → ChainMgr
  | "set_state" => { m with coinstate := cs }
  | "cleanup_pool" => { m with pool := cleanupPool C m.coinstate m.pool }     -- against the state just installed
  | "mark_valid" => { m with lastValid := some m.coinstate }
  | _ => m

theorem model_set_coinstate_is_translated_effects (C : Crypto) (m : ChainMgr) (cs : CoinState) (validated : Bool) :
    setCoinstate C m cs validated = (Gen.set_coinstate_effects validated).1.foldl (runMgrEffect C cs) m ∧
    (Gen.set_coinstate_effects validated).2 = false := by
  cases validated <;> simp [Gen.set_coinstate_effects, setCoinstate, runMgrEffect]

/-! ### add_transaction_to_pool -/

/-- how the code sees the result of one validation call: returns, raises `ValidateTransactionError`, raises something else -/
def outcome (x : Except Err Unit) : Gen.Outcome :=
  match x with
  | .ok _ => .ok
  | .error (.validation _) => .refused
  | .error _ => .escapes

def runPoolEffect (t : CTx) (m : ChainMgr) : String → ChainMgr
  | "pool_append" => { m with pool := m.pool ++ [t] }
  | _ => m                                   -- debug_save, return_true, return_false: nothing in the manager changes

/-- the refinement: resulting manager, admitted flag and escape flag -/
theorem model_add_to_pool_is_translated_effects (C : Crypto) (m : ChainMgr) (t : CTx)
    (hhead : (headUtxo m.coinstate).isSome) :
    let eff := Gen.add_to_pool_effects (outcome (validateTxByItself Gen.params t))
      (outcome (validateTxAtHead C m.coinstate t))
      (outcome (require (decide (allRefs (m.pool ++ [t])).Nodup) "Duplicate output_reference.")) true
    (match addTxToPool C Gen.params m t with
      | .ok (m', admitted) =>
          eff.2 = false ∧ m' = eff.1.foldl (runPoolEffect t) m ∧
          (admitted = true ↔ "return_true" ∈ eff.1) ∧ (admitted = false ↔ "return_false" ∈ eff.1)
      | .error _ => eff.2 = true) := by
  intro eff
  unfold addTxToPool
  simp only [eff, Gen.add_to_pool_effects]
  cases h1 : validateTxByItself Gen.params t with
  | error e =>
    cases e <;> simp [outcome, bind, Except.bind, runPoolEffect]
  | ok _ =>
    simp only [outcome, bind, Except.bind]
    cases h2 : validateTxAtHead C m.coinstate t with
    | error e => cases e <;> simp [outcome, runPoolEffect]
    | ok _ =>
      simp only [outcome]
      by_cases hn : (allRefs (m.pool ++ [t])).Nodup
      · simp [require, hn, outcome, runPoolEffect]
      · simp [require, hn, outcome, runPoolEffect]

end GenTie

import Props.GenTie.Subsidy
import Proofs.Validation
import Gen.CoinbaseInStateOk

/-!
GenTie.CoinbaseRule — the decision of `validate_coinbase_transaction_in_coinstate`, translated from the current source over
declared atoms (the parent's height, the block's height, the fees of the other transactions, the reward's output values), is
the model's: height = parent's + 1, and the reward's outputs sum to at most the fees plus the subsidy **of the block's own
height**.
-/

set_option linter.unusedSimpArgs false
set_option linter.unusedVariables false

namespace GenTie
open Model

theorem coinbase_in_state_ok_eq (ph bh : Nat) (fees : Int) (outs : List Nat) :
    Gen.coinbase_in_state_ok ph bh fees outs =
      (decide (bh = ph + 1) && decide ((outs.sum : Int) ≤ fees + (subsidy Gen.params bh : Int))) := by
  unfold Gen.coinbase_in_state_ok
  simp only [get_block_subsidy_eq]
  by_cases h1 : bh = ph + 1
  · subst h1
    have h1' : ¬ (((ph + 1 : Nat) : Int) ≠ (ph : Int) + 1) := by omega
    by_cases h2 : (outs.sum : Int) ≤ fees + (subsidy Gen.params (ph + 1) : Int)
    · have h2' : ¬ ((outs.sum : Int) > fees + (subsidy Gen.params (ph + 1) : Int)) := by omega
      simp only [h1', h2, h2', decide_false, decide_true, Bool.false_eq_true, ↓reduceIte, Bool.and_self]
    · have h2' : (outs.sum : Int) > fees + (subsidy Gen.params (ph + 1) : Int) := by omega
      simp only [h1', h2, h2', decide_false, decide_true, Bool.false_eq_true, ↓reduceIte, Bool.and_false]
  · have h1' : (bh : Int) ≠ (ph : Int) + 1 := by omega
    simp [h1, h1']

/-- `validateCoinbaseInState` succeeds exactly when the translated decision says so (atoms: the parent's height, the
block's height, the fees of the other transactions against the parent's unspent set, the reward's output values) -/
theorem model_coinbase_in_state_as_translated (cs : CoinState) (cb : CTx) (b pb : Block) (u : Utxo) (fees : Int)
    (hpb : cs.blocks.get? b.prev = some pb) (hu : cs.utxoAt.get? b.prev = some u)
    (hf : blockFees u b.txs.tail = .ok fees) :
    validateCoinbaseInState Gen.params cs cb b = .ok () ↔
      Gen.coinbase_in_state_ok pb.height b.height fees (cb.tx.outputs.map (·.value)) = true := by
  unfold validateCoinbaseInState
  rw [hpb, coinbase_in_state_ok_eq]
  simp [hu, hf, bind, Except.bind, require, outputsValue]
  by_cases h1 : b.height = pb.height + 1
  · simp [h1]
  · simp [h1]

end GenTie

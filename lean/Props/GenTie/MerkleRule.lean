import Model.Merkle
import Gen.Merkle

/-!
GenTie.MerkleRule — `merkletree.get_merkle_root` (with `_chunks`, transcribed literally as slices at the indices `range(0, len, n)`)
and `consensus.calc_merkle_root_hash`, translated from the current source, are the model's `merkleRootFuel` / `merkleRoot`:
one level pairs neighbours (hash of the concatenation) and promotes an odd last entry unchanged; the header commitment is the root
over the transaction ids in block order.
-/

set_option linter.unusedSimpArgs false
set_option linter.unusedVariables false

namespace GenTie
open Model

/-- `_chunks(l, 2)` on a list with at least two entries -/
theorem chunks_cons_cons {α : Type} (a b : α) (rest : List α) :
    Gen.chunks (a :: b :: rest) 2 = [a, b] :: Gen.chunks rest 2 := by
  unfold Gen.chunks
  have hlen : ((a :: b :: rest).length + 2 - 1) / 2 = (rest.length + 2 - 1) / 2 + 1 := by
    simp only [List.length_cons]; omega
  rw [hlen, List.range_succ_eq_map]
  simp only [List.map_cons, List.map_map, Nat.zero_mul, List.drop_zero, List.take_succ_cons, List.take_zero]
  congr 1
  apply List.map_congr_left
  intro k _
  simp only [Function.comp, Nat.succ_eq_add_one]
  have : (k + 1) * 2 = k * 2 + 2 := by omega
  rw [this]
  rfl

theorem chunks_nil {α : Type} : Gen.chunks ([] : List α) 2 = [] := by
  simp [Gen.chunks]

theorem chunks_singleton {α : Type} (a : α) : Gen.chunks [a] 2 = [[a]] := by
  simp [Gen.chunks, List.range_succ_eq_map]

/-- one level of the translated loop is the model's `pairUp` -/
theorem level_is_pairUp (h : Bytes → Bytes) : ∀ (n : Nat) (l : List Bytes), l.length ≤ n →
    (Gen.chunks l 2).mapM (Gen.get_merkle_root.item h) = some (pairUp h l) := by
  intro n
  induction n with
  | zero =>
    intro l hl
    have : l = [] := List.eq_nil_of_length_eq_zero (by omega)
    subst this
    simp [chunks_nil, pairUp]
  | succ n ih =>
    intro l hl
    match l, hl with
    | [], _ => simp [chunks_nil, pairUp]
    | [a], _ => simp [chunks_singleton, pairUp, Gen.get_merkle_root.item]
    | a :: b :: rest, hl =>
      have hr : rest.length ≤ n := by simp only [List.length_cons] at hl; omega
      rw [chunks_cons_cons, List.mapM_cons]
      simp [Gen.get_merkle_root.item, ih rest hr, pairUp]

/-- the translated root is the model's, for every fuel and every list -/
theorem get_merkle_root_eq (h : Bytes → Bytes) (fuel : Nat) : ∀ l : List Bytes,
    Gen.get_merkle_root h fuel l = merkleRootFuel h fuel l := by
  induction fuel with
  | zero => intro l; simp [Gen.get_merkle_root, merkleRootFuel]
  | succ f ih =>
    intro l
    match l with
    | [] =>
      simp only [Gen.get_merkle_root, List.length_nil, Nat.zero_ne_one, ↓reduceIte, level_is_pairUp h 0 [] (by simp)]
      rw [ih]; simp [merkleRootFuel]
    | [x] => simp [Gen.get_merkle_root, merkleRootFuel]
    | x :: y :: r =>
      have hl := level_is_pairUp h (x :: y :: r).length (x :: y :: r) (Nat.le_refl _)
      simp only [Gen.get_merkle_root, hl]
      rw [ih]
      simp [merkleRootFuel]

/-- the header commitment as translated is the model's `merkleRoot` over the ids in block order -/
theorem calc_merkle_root_hash_eq (h : Bytes → Bytes) (ids : List Bytes) :
    Gen.calc_merkle_root_hash h ids.length ids = merkleRoot h ids := by
  unfold Gen.calc_merkle_root_hash merkleRoot
  exact get_merkle_root_eq h _ _

end GenTie

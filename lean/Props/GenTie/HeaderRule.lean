import Proofs.Validation
import Gen.HeaderByItselfOk

/-!
GenTie.HeaderRule — the decision of `validate_block_header_by_itself`, translated from the current source over declared atoms,
is the model's: proof of work, then timestamp at most `MAX_FUTURE_BLOCK_TIME` ahead of the clock.
-/

set_option linter.unusedSimpArgs false
set_option linter.unusedVariables false

namespace GenTie
open Model

theorem header_by_itself_ok_eq (pow : Bool) (ts : Nat) (now : Int) :
    Gen.header_by_itself_ok pow ts now =
      (pow && decide ((ts : Int) ≤ now + (Gen.params.maxFutureBlockTime : Int))) := by
  unfold Gen.header_by_itself_ok
  have hp : (Gen.params.maxFutureBlockTime : Int) = (Gen.MAX_FUTURE_BLOCK_TIME : Int) := rfl
  rw [hp]
  cases pow
  · simp
  · by_cases h : (ts : Int) ≤ now + (Gen.MAX_FUTURE_BLOCK_TIME : Int)
    · have h' : ¬ ((ts : Int) > now + (Gen.MAX_FUTURE_BLOCK_TIME : Int)) := by omega
      simp [h, h']
    · have h' : (ts : Int) > now + (Gen.MAX_FUTURE_BLOCK_TIME : Int) := by omega
      simp [h, h']

/-- `validateHeaderByItself` succeeds exactly when the translated decision says so (atoms: proof of work = id below
target; timestamp; clock) -/
theorem model_header_by_itself_as_translated (C : Crypto) (h : Header) (now : Int) :
    validateHeaderByItself C Gen.params h now = .ok () ↔
      Gen.header_by_itself_ok (bytesLt (C.sha256d (encHeader h)) h.summary.target) h.summary.timestamp now = true := by
  rw [validateHeaderByItself_ok, header_by_itself_ok_eq]
  simp

end GenTie

import Model.Wallet
import Gen.ReceiveScriptEffects
import Gen.SaveWalletEffects

/-!
GenTie.ReceiveScriptRule — `skepticoin-receive` (scripts/receive.py, `main`), translated from the current source as an effect
list: the wallet is opened, a key is handed out, the wallet is **saved, and only then** is the address shown to the user —
nothing is shown that is not on disk. Together with `GenTie.WalletSaveRule` (the save is open-truncate / write / close / rename)
and `C15.save_atomic`: whenever the process dies, an address the user has seen belongs to a key that the wallet file records as
handed out, so the next run cannot hand it out again while unused keys remain.
-/

namespace GenTie
open Model

theorem receive_script_effects_eq :
    Gen.receive_script_effects = (["open_wallet", "hand_out", "save", "show"], false) := by
  rfl

/-- the address is shown after the save, which comes after the hand-out; showing is the last thing the script does -/
theorem shown_only_after_saved :
    Gen.receive_script_effects.1.idxOf "hand_out" < Gen.receive_script_effects.1.idxOf "save" ∧
    Gen.receive_script_effects.1.idxOf "save" < Gen.receive_script_effects.1.idxOf "show" ∧
    Gen.receive_script_effects.1.getLast? = some "show" ∧
    Gen.receive_script_effects.1.count "show" = 1 := by
  rw [receive_script_effects_eq]; decide

/-- the script's run as file-system operations followed by the event "shown" (`none`): a crash is a prefix of this list -/
def scriptOps (chunks : List Bytes) : List (Option FsOp) :=
  Gen.receive_script_effects.1.flatMap fun
    | "save" => (Gen.save_wallet_effects.1.flatMap (fsOpsOf' chunks)).map some
    | "show" => [none]
    | _ => []
where
  fsOpsOf' (chunks : List Bytes) : String → List FsOp
    | "open_truncate_new" => [.openTrunc "wallet.json.new"]
    | "write_new" => chunks.map (.append "wallet.json.new")
    | "rename_new_to_final" => [.rename "wallet.json.new" "wallet.json"]
    | _ => []

/-- in every prefix of the run (a crash at any point) that contains the showing of the address, the whole save — up to and
including the rename over the wallet file — has been performed before it -/
theorem crash_after_show_has_saved (chunks : List Bytes) (k : Nat)
    (h : none ∈ (scriptOps chunks).take k) :
    (saveOps "wallet.json" chunks).map some = ((scriptOps chunks).take k).filter (·.isSome) := by
  have hs : scriptOps chunks = (saveOps "wallet.json" chunks).map some ++ [none] := by
    simp [scriptOps, scriptOps.fsOpsOf', receive_script_effects_eq, saveOps, List.flatMap,
      show Gen.save_wallet_effects = (["open_truncate_new", "write_new", "close_new", "rename_new_to_final"], false) from rfl]
  rw [hs] at h ⊢
  have hlen : (saveOps "wallet.json" chunks).length < k := by
    by_cases hk : k ≤ ((saveOps "wallet.json" chunks).map some).length
    · rw [List.take_append_of_le_length hk] at h
      have := List.mem_of_mem_take h
      simp at this
    · simpa using Nat.lt_of_not_le hk
  have : ((saveOps "wallet.json" chunks).map some ++ [none]).take k = (saveOps "wallet.json" chunks).map some ++ [none] := by
    apply List.take_of_length_le
    simp
    omega
  rw [this]
  have hf : ∀ l : List FsOp, (l.map some).filter (·.isSome) = l.map some := by
    intro l
    induction l with
    | nil => rfl
    | cons x xs ih => simp [ih]
  simp [List.filter_append, hf]

end GenTie

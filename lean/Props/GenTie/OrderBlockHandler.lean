import Props.GenTie.Order
import Gen.HandleBlockEffects

/-!
GenTie.OrderRules — statements about the handlers **as translated**, with no model in between: for every value of the atoms the
effect tree reads, what may happen before what. They are what the corresponding properties say about the order of the code's own
statements (C09, C12, C13, C08), and they are robust: a rewrite that keeps the order re-proves them by the same case analysis.
-/

namespace GenTie

/-- C09: whatever the block and the state, the block handler relays (`broadcast`) only a block that it has applied; for an
unsolicited block the relay comes after the full validation succeeded, the validated state was installed and the store was
flushed; a block is buffered for the store only after it has been applied; when the full validation fails the buffer is cleared,
nothing is installed as validated, nothing is flushed and nothing is relayed -/
theorem handle_block_orders (known parent_known by_itself_ok apply_ok unsolicited : Bool) (height : Nat)
    (in_state_ok has_last_valid is_head : Bool) :
    let e := (Gen.handle_block_effects known parent_known by_itself_ok apply_ok unsolicited height in_state_ok has_last_valid
      is_head).1
    ("broadcast" ∈ e → unsolicited = true ∧ precededBy e "broadcast" ["apply", "buffer", "adopt_validated", "flush"] = true) ∧
    ("buffer" ∈ e → precededBy e "buffer" ["apply"] = true ∧ apply_ok = true) ∧
    ("flush" ∈ e → precededBy e "flush" ["apply", "buffer", "adopt_validated"] = true ∧ in_state_ok = true) ∧
    ("clear_buffer" ∈ e → "adopt_validated" ∉ e ∧ "flush" ∉ e ∧ "broadcast" ∉ e ∧ in_state_ok = false) ∧
    ("adopt_unvalidated" ∈ e → unsolicited = false ∧ "flush" ∉ e) := by
  intro e
  simp only [e, Gen.handle_block_effects]
  by_cases hh : height % Gen.IBD_VALIDATION_SKIP = 0 <;>
    cases known <;> cases parent_known <;> cases by_itself_ok <;> cases apply_ok <;> cases unsolicited <;>
    cases in_state_ok <;> cases has_last_valid <;> cases is_head <;> simp [hh, precededBy] <;> decide

end GenTie

import Model.Wallet
import Gen.SaveWalletEffects

/-!
GenTie.WalletSaveRule — `save_wallet`, translated from the current source as an effect list, performs the operations of the
model's `saveOps`: open the temporary file truncating it, write the dump, **close it, and only then** rename it over the wallet
file; nothing else, and never a write to the wallet file itself.
-/

namespace GenTie
open Model

/-- the file-system operations a token stands for, for a dump written in `chunks` -/
def fsOpsOf (final : String) (chunks : List Bytes) : String → List FsOp
  | "open_truncate_new" => [.openTrunc (final ++ ".new")]
  | "write_new" => chunks.map (.append (final ++ ".new"))
  | "close_new" => []                                   -- closing flushes what was written; the model appends eagerly
  | "rename_new_to_final" => [.rename (final ++ ".new") final]
  | _ => []

theorem save_wallet_effects_eq :
    Gen.save_wallet_effects = (["open_truncate_new", "write_new", "close_new", "rename_new_to_final"], false) := by
  rfl

/-- the operations of the translated `save_wallet` are the model's `saveOps`, for every chunking of the dump -/
theorem model_save_is_translated_effects (chunks : List Bytes) :
    (Gen.save_wallet_effects.1.flatMap (fsOpsOf "wallet.json" chunks)) = saveOps "wallet.json" chunks ∧
    Gen.save_wallet_effects.2 = false := by
  rw [save_wallet_effects_eq]
  simp [fsOpsOf, saveOps, List.flatMap]

/-- the rename is the last operation and comes after the close -/
theorem rename_after_close :
    Gen.save_wallet_effects.1.getLast? = some "rename_new_to_final" ∧
    Gen.save_wallet_effects.1.idxOf "close_new" < Gen.save_wallet_effects.1.idxOf "rename_new_to_final" := by
  rw [save_wallet_effects_eq]; decide

end GenTie

import Model.Consensus
import Proofs.Types
import Gen.PowSampler
import Props.GenTie.Target
import Props.GenTie.Params

/-!
GenTie.PowRule — the chain sampler of pow.py (`select_block_slice`, `select_slice_from_chain`,
`select_n_k_length_slices_from_chain`), regenerated: the `while` loop that collects `length` bytes of a serialised block starting
at the position the hash selects and wrapping round to the start; the look-up of the block at the height the hash selects; and
the loop that appends one slice per round and re-hashes (hash ++ slice) after every round but the last.

The model's `selectBlockSlice` / `selectSlices` / `chainSample` (inside the evidence that C05's rule compares) are these
functions with the model's block look-up, block encoder and sha256d plugged in.
-/

namespace GenTie.Pow
open Model Gen

/-- helper: the translated loop returns what it has plus what the model's loop collects from now on -/
theorem loop_eq_sliceLoop (h ser : Bytes) (len base : Nat) :
    ∀ (fuel : Nat) (result : Bytes) (start : Nat),
      Gen.select_block_slice.loop h ser len base fuel result start =
        result ++ Model.sliceLoop ser fuel start (len - result.length) := by
  intro fuel
  induction fuel with
  | zero => intro result start; simp [Gen.select_block_slice.loop, Model.sliceLoop]
  | succ fuel ih =>
    intro result start
    unfold Gen.select_block_slice.loop Model.sliceLoop
    by_cases hlt : result.length < len
    · have hne : len - result.length ≠ 0 := by omega
      have hpiece : (ser.take (start + len - result.length)).drop start =
          (ser.drop start).take (len - result.length) := by
        rw [List.drop_take]
        congr 1
        omega
      simp only [hlt, decide_true, if_true, hne, if_false]
      rw [ih, hpiece]
      simp only [List.length_append, List.append_assoc, Nat.sub_sub]
    · have hz : len - result.length = 0 := by omega
      simp [hlt, hz]

/-- helper: the byte selector `hash[8:12]` written both ways -/
theorem take_drop_base (hash : Bytes) : (hash.take 12).drop 8 = (hash.drop 8).take 4 := by
  rw [List.drop_take]

/-- helper: with enough fuel and a non-empty block the model's loop returns exactly `need` bytes -/
theorem sliceLoop_length (ser : Bytes) :
    ∀ (fuel start need : Nat), start < ser.length → need < fuel →
      (Model.sliceLoop ser fuel start need).length = need := by
  intro fuel
  induction fuel with
  | zero => intro start need _ h; omega
  | succ fuel ih =>
    intro start need hs hf
    unfold Model.sliceLoop
    by_cases hz : need = 0
    · simp [hz]
    · simp only [hz, if_false, List.length_append]
      have hp : ((ser.drop start).take need).length = min need (ser.length - start) := by
        simp
      have h0 : 0 < ser.length := by omega
      rw [ih 0 _ h0 (by omega)]
      omega

/-- the collecting loop: `length` bytes starting at `start`, wrapping round (for a non-empty block) -/
theorem select_block_slice_eq (h ser : Bytes) (len : Nat) (hne : ser ≠ []) :
    Gen.select_block_slice h ser len = Model.selectBlockSlice h ser len := by
  have _ := hne
  unfold Gen.select_block_slice Model.selectBlockSlice
  simp only [loop_eq_sliceLoop, take_drop_base, List.nil_append, List.length_nil, Nat.sub_zero]

/-- the slice has exactly the requested length (for a non-empty block) -/
theorem select_block_slice_length (h ser : Bytes) (len : Nat) (hne : ser ≠ []) :
    (Gen.select_block_slice h ser len).length = len := by
  rw [select_block_slice_eq h ser len hne]
  unfold Model.selectBlockSlice
  have hpos : 0 < ser.length := List.length_pos_iff.mpr hne
  exact sliceLoop_length ser _ _ _ (Nat.mod_lt _ hpos) (Nat.lt_succ_self _)

/-- one slice: the block at the height the hash selects, then the collecting loop on its encoding -/
theorem select_slice_from_chain_eq (getBlock : Nat → Option Block) (hash : Bytes) (height k : Nat)
    (hne : ∀ n b, getBlock n = some b → encBlock b ≠ []) :
    Gen.select_slice_from_chain (fun n => (getBlock n).map encBlock) hash height k =
      (getBlock (selectBlockHeight hash height)).map fun blk => selectBlockSlice hash (encBlock blk) k := by
  unfold Gen.select_slice_from_chain
  rw [GenTie.select_block_height_eq]
  show Option.map (fun ser => select_block_slice hash ser k)
      (Option.map encBlock (getBlock (selectBlockHeight hash height))) = _
  cases hb : getBlock (selectBlockHeight hash height) with
  | none => rfl
  | some b =>
    simp only [Option.map_some]
    rw [select_block_slice_eq _ _ _ (hne _ _ hb)]

variable (C : Crypto)

/-- helper: the model's sampler with `Option` for the failed look-up -/
def slicesAux (getBlock : Nat → Option Block) (height k : Nat) : Nat → Bytes → Option Bytes
  | 0, _ => some []
  | n + 1, h =>
    match getBlock (selectBlockHeight h height) with
    | none => none
    | some blk =>
      let b := selectBlockSlice h (encBlock blk) k
      match slicesAux getBlock height k n (C.sha256d (h ++ b)) with
      | none => none
      | some rest => some (b ++ rest)

/-- helper: the model's sampler is `slicesAux` with the key error for `none` -/
theorem selectSlices_eq_aux (getBlock : Nat → Option Block) (height k : Nat) :
    ∀ (n : Nat) (h : Bytes),
      selectSlices C getBlock height k n h =
        match slicesAux C getBlock height k n h with
        | some bs => .ok bs
        | none => .error (.key "sampled block") := by
  intro n
  induction n with
  | zero => intro h; rfl
  | succ n ih =>
    intro h
    unfold selectSlices slicesAux
    cases getBlock (selectBlockHeight h height) with
    | none => rfl
    | some blk =>
      simp only
      rw [ih]
      cases slicesAux C getBlock height k n (C.sha256d (h ++ selectBlockSlice h (encBlock blk) k)) <;> rfl

/-- helper: the round of the translated sampler, with the index of the last round as a parameter -/
def sliceStep (sha256d : Bytes → Bytes) (get_block : Nat → Option Bytes) (height k last : Nat)
    (st : Option (List Bytes × Bytes)) (i : Nat) : Option (List Bytes × Bytes) :=
  match st with
  | none => none
  | some (result, current_hash) =>
    match Gen.select_slice_from_chain get_block current_hash height k with
    | none => none
    | some b => some (result ++ [b], if (decide (i ≠ last)) then (sha256d (current_hash ++ b)) else current_hash)

/-- helper: once a look-up has failed the fold stays failed -/
theorem foldl_sliceStep_none (sha256d : Bytes → Bytes) (get_block : Nat → Option Bytes) (height k last : Nat)
    (l : List Nat) : l.foldl (sliceStep sha256d get_block height k last) none = none := by
  induction l with
  | nil => rfl
  | cons a l ih => simpa [List.foldl_cons, sliceStep] using ih

/-- helper: the fold over the rounds `a, …, a + m - 1` (the last one being `last`) is `slicesAux` -/
theorem foldl_sliceStep_eq (getBlock : Nat → Option Block) (height k : Nat)
    (hne : ∀ m b, getBlock m = some b → encBlock b ≠ []) :
    ∀ (m a last : Nat) (res : List Bytes) (h : Bytes), (m ≠ 0 → last + 1 = a + m) →
      (((List.range' a m).foldl
          (sliceStep C.sha256d (fun m => (getBlock m).map encBlock) height k last) (some (res, h))).map
        fun st => st.1.flatten) =
        (slicesAux C getBlock height k m h).map fun bs => res.flatten ++ bs := by
  intro m
  induction m with
  | zero => intro a last res h _; simp [slicesAux]
  | succ m ih =>
    intro a last res h hl
    have hl' : last = a + m := by have := hl (by omega); omega
    subst hl'
    rw [List.range'_succ, List.foldl_cons]
    unfold slicesAux
    simp only [sliceStep]
    rw [select_slice_from_chain_eq getBlock h height k hne]
    cases getBlock (selectBlockHeight h height) with
    | none =>
      simp only [Option.map_none]
      rw [foldl_sliceStep_none]
      rfl
    | some blk =>
      simp only [Option.map_some]
      cases m with
      | zero =>
        simp [slicesAux]
      | succ m =>
        have hd : decide (a ≠ a + (m + 1)) = true := by simp
        simp only [hd, if_true]
        rw [ih (a + 1) (a + (m + 1)) _ _ (by intro _; omega)]
        cases slicesAux C getBlock height k (m + 1)
            (C.sha256d (h ++ selectBlockSlice h (encBlock blk) k)) with
        | none => rfl
        | some rest => simp

/-- the model's sampler is the translated loop (a failed look-up is the model's key error) -/
theorem select_slices_eq (getBlock : Nat → Option Block) (height k n : Nat) (h : Bytes)
    (hne : ∀ m b, getBlock m = some b → encBlock b ≠ []) :
    selectSlices C getBlock height k n h =
      match Gen.select_n_k_length_slices_from_chain C.sha256d (fun m => (getBlock m).map encBlock) h height n k with
      | some bs => .ok bs
      | none => .error (.key "sampled block") := by
  have hfold := foldl_sliceStep_eq C getBlock height k hne n 0 (n - 1) [] h (by intro _; omega)
  rw [← List.range_eq_range'] at hfold
  have hgen : Gen.select_n_k_length_slices_from_chain C.sha256d (fun m => (getBlock m).map encBlock) h height n k =
      slicesAux C getBlock height k n h := by
    unfold Gen.select_n_k_length_slices_from_chain
    have : (slicesAux C getBlock height k n h) =
        (slicesAux C getBlock height k n h).map fun bs => ([] : List Bytes).flatten ++ bs := by
      cases slicesAux C getBlock height k n h <;> simp
    rw [this, ← hfold]
    rfl
  rw [hgen]
  exact selectSlices_eq_aux C getBlock height k n h

/-- every block's encoding is non-empty (it starts with the header's version byte) -/
theorem encBlock_ne_nil (b : Block) : encBlock b ≠ [] := by
  simp [encBlock, BlockC.codec, Header.codec]

/-- the model's chain sample is zeros at height 0 and otherwise the translated sampler on the chain of the summary's parent -/
theorem model_chain_sample_as_translated (cs : CoinState) (sh : Bytes) (s : Summary) (height : Nat) (hh : height ≠ 0) :
    chainSample C Gen.params cs sh s height =
      match Gen.select_n_k_length_slices_from_chain C.sha256d
          (fun m => ((cs.byHeightAt.get? s.prev).bind (·.get? m)).map encBlock) sh height Gen.CHAIN_SAMPLE_COUNT Gen.CHAIN_SAMPLE_SIZE with
      | some bs => .ok bs
      | none => .error (.key "sampled block") := by
  unfold chainSample
  simp only [hh, if_false]
  have hc : Gen.params.sampleCount = Gen.CHAIN_SAMPLE_COUNT := rfl
  have hs : Gen.params.sampleSize = Gen.CHAIN_SAMPLE_SIZE := rfl
  rw [hc, hs]
  exact select_slices_eq C _ height _ _ sh (fun _ b _ => encBlock_ne_nil b)

end GenTie.Pow

import Props.GenTie.Order
import Gen.AddToPoolEffects
import Gen.SetCoinstateEffects

/-!
GenTie.OrderRules — statements about the handlers **as translated**, with no model in between: for every value of the atoms the
effect tree reads, what may happen before what. They are what the corresponding properties say about the order of the code's own
statements (C09, C12, C13, C08), and they are robust: a rewrite that keeps the order re-proves them by the same case analysis.
-/

namespace GenTie

/-- C13: a submitted transaction is appended to the pool only when all three validations returned normally, and then nothing
escapes -/
theorem add_to_pool_orders (a b c : Gen.Outcome) (has_head : Bool) :
    let r := Gen.add_to_pool_effects a b c has_head
    ("pool_append" ∈ r.1 → a = .ok ∧ b = .ok ∧ c = .ok ∧ has_head = true ∧ r.2 = false) := by
  cases a <;> cases b <;> cases c <;> cases has_head <;> decide

/-- C13, for every schedule of the node's threads: the three validations of a submission, the test that there is a head and the
append to the pool all stand inside one `with self.lock:` block (only the final `return True` follows it), and so do the three
state changes of a head change (new state, clean-up of the pool, marking it validated). The manager's lock is not re-entrant-free
magic: it is one `threading.Lock` taken by both methods — so every execution of the two methods by any number of threads is, as far
as the pool and the served state are concerned, a sequence of *whole* submissions and head changes, which is what `C13`'s theorems
about `ChainMgr` quantify over. -/
theorem pool_operations_are_critical_sections :
    (∀ t ∈ ["by_itself", "has_head", "at_head", "no_duplicate", "pool_append"], t ∈ Gen.add_to_pool_effects_under_lock) ∧
    (∀ t ∈ Gen.add_to_pool_effects_outside_lock, t = "return_true") ∧
    (∀ t ∈ ["set_state", "cleanup_pool", "mark_valid"], t ∈ Gen.set_coinstate_effects_under_lock) ∧
    Gen.set_coinstate_effects_outside_lock = [] := by decide

end GenTie

import Props.GenTie.Order
import Gen.AddToPoolEffects

/-!
GenTie.OrderRules — statements about the handlers **as translated**, with no model in between: for every value of the atoms the
effect tree reads, what may happen before what. They are what the corresponding properties say about the order of the code's own
statements (C09, C12, C13, C08), and they are robust: a rewrite that keeps the order re-proves them by the same case analysis.
-/

namespace GenTie

/-- C13: a submitted transaction is appended to the pool only when all three validations returned normally, and then nothing
escapes -/
theorem add_to_pool_orders (a b c : Gen.Outcome) (has_head : Bool) :
    let r := Gen.add_to_pool_effects a b c has_head
    ("pool_append" ∈ r.1 → a = .ok ∧ b = .ok ∧ c = .ok ∧ has_head = true ∧ r.2 = false) := by
  cases a <;> cases b <;> cases c <;> cases has_head <;> decide

end GenTie

import Model.Ledger
import Proofs.Map
import Gen.Balances

/-!
GenTie.BalancesRule — `uto_apply_transaction` and `pkb_apply_transaction` of balances.py, translated from the current source as
programs over the model's `Map` (loops over the inputs and outputs of a transaction threading one mutable map; a missing key is
an error), are the model's `utoApplyTx` / `pkbApplyTx` (results compared up to the text of the error).
-/

set_option linter.unusedSimpArgs false
set_option linter.unusedVariables false

namespace GenTie
open Model

def okOf {α : Type} (x : Except Err α) : Option α := match x with | .ok a => some a | .error _ => none

theorem uto_loop0_eq (txid : Bytes) (ins : List Input) : ∀ m : Utxo,
    okOf (Gen.uto_apply_transaction.loop0 txid m ins) = okOf (removeInputs m ins) := by
  induction ins with
  | nil => intro m; rfl
  | cons i rest ih =>
    intro m
    simp only [Gen.uto_apply_transaction.loop0, removeInputs]
    by_cases h : m.contains i.ref = true
    · simp only [h, ↓reduceIte]; exact ih _
    · simp [h, okOf]

theorem uto_loop1_eq (txid : Bytes) (outs : List Output) : ∀ (m : Utxo) (i : Nat),
    Gen.uto_apply_transaction.loop1 txid m outs i = .ok (addOutputs m txid outs i) := by
  induction outs with
  | nil => intro m i; rfl
  | cons o rest ih =>
    intro m i
    simp only [Gen.uto_apply_transaction.loop1, addOutputs]
    exact ih _ _

/-- the unspent-output update of one transaction -/
theorem uto_apply_transaction_eq (C : Crypto) (u : Utxo) (t : CTx) (isCoinbase : Bool) :
    okOf (Gen.uto_apply_transaction (t.id C) u t.tx.inputs t.tx.outputs isCoinbase) = okOf (utoApplyTx C u t isCoinbase) := by
  unfold Gen.uto_apply_transaction utoApplyTx
  cases isCoinbase with
  | true => simp [uto_loop1_eq, okOf, bind, Except.bind, pure, Except.pure]
  | false =>
    have h := uto_loop0_eq (t.id C) t.tx.inputs u
    cases h1 : Gen.uto_apply_transaction.loop0 (t.id C) u t.tx.inputs with
    | error e =>
      cases h2 : removeInputs u t.tx.inputs with
      | error e' => simp [h1, h2, okOf, bind, Except.bind]
      | ok m' => simp [h1, h2, okOf] at h
    | ok m =>
      cases h2 : removeInputs u t.tx.inputs with
      | error e' => simp [h1, h2, okOf] at h
      | ok m' =>
        simp only [h1, h2, okOf, Option.some.injEq] at h
        subst h
        simp [h1, h2, uto_loop1_eq, okOf, bind, Except.bind, pure, Except.pure]

theorem pkb_loop0_eq (txid : Bytes) (u : Utxo) (ins : List Input) : ∀ m : PKBalances,
    okOf (Gen.pkb_apply_transaction.loop0 txid u m ins) = okOf (pkbSpend u m ins) := by
  induction ins with
  | nil => intro m; rfl
  | cons i rest ih =>
    intro m
    simp only [Gen.pkb_apply_transaction.loop0, pkbSpend]
    cases h1 : u.get? i.ref with
    | none => simp [okOf]
    | some o =>
      simp only []
      cases h2 : m.get? o.pk with
      | none => simp [okOf]
      | some bal =>
        simp only []
        exact ih _

theorem set_set_self {κ ν : Type} [DecidableEq κ] (m : Map κ ν) (k : κ) (v w : ν) : (m.set k v).set k w = m.set k w := by
  simp only [Map.set, Map.erase, List.filter_cons, ne_eq, not_true_eq_false, decide_false, Bool.false_eq_true, ↓reduceIte,
    List.filter_filter, Bool.and_self]

theorem pkb_loop1_eq (txid : Bytes) (u : Utxo) (outs : List Output) : ∀ (m : PKBalances) (i : Nat),
    Gen.pkb_apply_transaction.loop1 txid u m outs i = .ok (pkbCredit m txid outs i) := by
  induction outs with
  | nil => intro m i; rfl
  | cons o rest ih =>
    intro m i
    simp only [Gen.pkb_apply_transaction.loop1, pkbCredit]
    cases h : m.get? o.pk with
    | none =>
      have hc : m.contains o.pk = false := by simp [Map.contains, h]
      simp only [hc, Bool.not_false, ↓reduceIte, Map.get?_set_self, Option.getD_none, set_set_self]
      simpa using ih _ _
    | some bal =>
      have hc : m.contains o.pk = true := by simp [Map.contains, h]
      simp only [hc, Bool.not_true, Bool.false_eq_true, ↓reduceIte, h, Option.getD_some]
      exact ih _ _

/-- the balance update of one transaction -/
theorem pkb_apply_transaction_eq (C : Crypto) (u : Utxo) (pkb : PKBalances) (t : CTx) (isCoinbase : Bool) :
    okOf (Gen.pkb_apply_transaction (t.id C) u pkb t.tx.inputs t.tx.outputs isCoinbase) =
      okOf (pkbApplyTx C u pkb t isCoinbase) := by
  unfold Gen.pkb_apply_transaction pkbApplyTx
  cases isCoinbase with
  | true => simp [pkb_loop1_eq, okOf, bind, Except.bind, pure, Except.pure]
  | false =>
    have h := pkb_loop0_eq (t.id C) u t.tx.inputs pkb
    cases h1 : Gen.pkb_apply_transaction.loop0 (t.id C) u pkb t.tx.inputs with
    | error e =>
      cases h2 : pkbSpend u pkb t.tx.inputs with
      | error e' => simp [h1, h2, okOf, bind, Except.bind]
      | ok m' => simp [h1, h2, okOf] at h
    | ok m =>
      cases h2 : pkbSpend u pkb t.tx.inputs with
      | error e' => simp [h1, h2, okOf] at h
      | ok m' =>
        simp only [h1, h2, okOf, Option.some.injEq] at h
        subst h
        simp [h1, h2, pkb_loop1_eq, okOf, bind, Except.bind, pure, Except.pure]

end GenTie

import Model.Consensus
import Gen.AddBlockEffects

/-!
GenTie.AddBlockRule — `CoinState.add_block` (full validation), translated from the current source as an effect tree, is the
model's `addBlock`: the block is validated by itself, then against the state, and only then applied — for **every** candidate,
whether or not a block with the same id is already stored; a failure of either validation escapes and nothing is applied.
-/

set_option linter.unusedSimpArgs false
set_option linter.unusedVariables false

namespace GenTie
open Model

def okB5 {α : Type} (x : Except Err α) : Bool := match x with | .ok _ => true | .error _ => false

/-- the effects: both validations, unconditionally and in this order, then the application -/
theorem add_block_order (a b : Bool) :
    Gen.add_block_effects a b =
      if !a then (["by_itself"], true) else if !b then (["by_itself", "in_state"], true)
      else (["by_itself", "in_state", "apply"], false) := by
  cases a <;> cases b <;> first | rfl | decide

theorem model_add_block_is_translated_effects (C : Crypto) (P : Params) (cs : CoinState) (b : Block) (now : Int) :
    let eff := Gen.add_block_effects (okB5 (validateBlockByItself C P b now)) (okB5 (validateBlockInState C P cs b))
    (eff.2 = true → ∃ e, addBlock C P cs b now = .error e) ∧
    (eff.2 = false → eff.1 = ["by_itself", "in_state", "apply"] ∧ addBlock C P cs b now = addBlockNoValidation C cs b) := by
  intro eff
  simp only [eff, add_block_order]
  unfold addBlock
  cases h1 : validateBlockByItself C P b now with
  | error e => simp [okB5, bind, Except.bind]
  | ok u =>
    cases h2 : validateBlockInState C P cs b with
    | error e => simp [okB5, bind, Except.bind]
    | ok v => simp [okB5, bind, Except.bind]

end GenTie

/-! GenTie.Order — `precededBy`, shared by the order theorems about the translated handlers -/

namespace GenTie

/-- `a` occurs in `l` and everything listed in `before` occurs earlier -/
def precededBy (l : List String) (a : String) (before : List String) : Bool :=
  before.all fun b => l.idxOf b < l.idxOf a

end GenTie

import Proofs.Validation
import Gen.SpendInStateOk

/-!
GenTie.SpendRule — the decision of `validate_non_coinbase_transaction_in_coinstate`, translated from the current source over
declared atoms, is the model's. The per-input atoms are: the reference is missing from the unspent set; the signature check
(`validate_signature_for_spend` returns); the value of the spent output. The translated function is a structural recursion
over the list of these triples (the code's `for input in transaction.inputs`), followed by the overspending test.

It says: **every** input exists and **every** input's signature check passes (in input order, the first failure decides),
and the outputs sum to at most the inputs' total.
-/

set_option linter.unusedSimpArgs false
set_option linter.unusedVariables false

namespace GenTie
open Model

theorem spend_loop_eq : ∀ (ins : List (Bool × Bool × Nat)) (total : Nat),
    Gen.spend_in_state_ok.loop ins total =
      if ins.all (fun r => !r.1 && r.2.1) then some (total + (ins.map (·.2.2)).sum) else none := by
  intro ins
  induction ins with
  | nil => intro total; simp [Gen.spend_in_state_ok.loop]
  | cons r rest ih =>
    intro total
    obtain ⟨missing, sig, value⟩ := r
    rw [Gen.spend_in_state_ok.loop]
    cases missing <;> cases sig <;> simp [ih, Nat.add_assoc] <;> rfl

/-- the translated decision, in closed form -/
theorem spend_in_state_ok_eq (ins : List (Bool × Bool × Nat)) (outs : List Nat) :
    Gen.spend_in_state_ok ins outs =
      (ins.all (fun r => !r.1 && r.2.1) && decide (outs.sum ≤ (ins.map (·.2.2)).sum)) := by
  unfold Gen.spend_in_state_ok
  simp only [spend_loop_eq]
  by_cases h : ins.all (fun r => !r.1 && r.2.1) = true
  · simp only [h, ↓reduceIte, Nat.zero_add, Bool.true_and]
    by_cases h2 : outs.sum ≤ (ins.map (·.2.2)).sum
    · have : ¬ outs.sum > (ins.map (·.2.2)).sum := by omega
      simp [h2, this]
    · have : outs.sum > (ins.map (·.2.2)).sum := by omega
      simp [h2, this]
  · simp [h]

/-- in particular a failing signature check on **any** input refuses the transaction, whatever its position -/
theorem any_bad_signature_refused (ins : List (Bool × Bool × Nat)) (outs : List Nat) (r : Bool × Bool × Nat)
    (hr : r ∈ ins) (hbad : r.2.1 = false) : Gen.spend_in_state_ok ins outs = false := by
  rw [spend_in_state_ok_eq]
  have : ins.all (fun r => !r.1 && r.2.1) = false := by
    rw [List.all_eq_false]
    exact ⟨r, hr, by simp [hbad]⟩
  simp [this]

/-- and a missing output on any input -/
theorem any_missing_output_refused (ins : List (Bool × Bool × Nat)) (outs : List Nat) (r : Bool × Bool × Nat)
    (hr : r ∈ ins) (hbad : r.1 = true) : Gen.spend_in_state_ok ins outs = false := by
  rw [spend_in_state_ok_eq]
  have : ins.all (fun r => !r.1 && r.2.1) = false := by
    rw [List.all_eq_false]
    exact ⟨r, hr, by simp [hbad]⟩
  simp [this]

/-! ### the model's validator decides as the translated function does -/

/-- the atoms of one input against the unspent set `u` -/
def inputAtoms (C : Crypto) (u : Utxo) (t : Tx) (i : Input) : Bool × Bool × Nat :=
  match u.get? i.ref with
  | none => (true, false, 0)
  | some o => (false, (match validateSignature C i o t with | .ok _ => true | .error _ => false), o.value)

theorem model_loop_as_translated (C : Crypto) (u : Utxo) (t : Tx) : ∀ (ins : List Input) (total : Nat),
    Gen.spend_in_state_ok.loop (ins.map (inputAtoms C u t)) total =
      (match validateInputs C u t ins with | .ok r => some (total + r) | .error _ => none) := by
  intro ins
  induction ins with
  | nil => intro total; simp [Gen.spend_in_state_ok.loop, validateInputs]
  | cons i rest ih =>
    intro total
    cases hu : u.get? i.ref with
    | none =>
      have ha : inputAtoms C u t i = (true, false, 0) := by simp [inputAtoms, hu]
      simp [List.map_cons, validateInputs, hu, ha, Gen.spend_in_state_ok.loop, verr]
    | some o =>
      cases hs : validateSignature C i o t with
      | error e =>
        have ha : inputAtoms C u t i = (false, false, o.value) := by simp [inputAtoms, hu, hs]
        simp [validateInputs, hu, ha, hs, Gen.spend_in_state_ok.loop, bind, Except.bind]
      | ok v =>
        have ha : inputAtoms C u t i = (false, true, o.value) := by simp [inputAtoms, hu, hs]
        simp only [List.map_cons, validateInputs, hu, ha, hs, Gen.spend_in_state_ok.loop, bind, Except.bind]
        simp only [Bool.false_eq_true, ↓reduceIte, Bool.not_true]
        rw [ih]
        cases hv : validateInputs C u t rest with
        | error e => simp
        | ok r => simp [pure, Except.pure]; omega

theorem model_spend_as_translated (C : Crypto) (u : Utxo) (t : CTx) :
    validateTxInState C u t = .ok () ↔
      Gen.spend_in_state_ok (t.tx.inputs.map (inputAtoms C u t.tx)) (t.tx.outputs.map (·.value)) = true := by
  unfold validateTxInState Gen.spend_in_state_ok
  simp only [model_loop_as_translated]
  cases hv : validateInputs C u t.tx t.tx.inputs with
  | error e => simp [bind, Except.bind]
  | ok total =>
    simp only [bind, Except.bind, require_ok, decide_eq_true_eq, Nat.zero_add, outputsValue]
    by_cases h : (t.tx.outputs.map (·.value)).sum ≤ total
    · have : ¬ (t.tx.outputs.map (·.value)).sum > total := by omega
      simp [h, this]
    · have : (t.tx.outputs.map (·.value)).sum > total := by omega
      simp [h, this]

end GenTie

import Model.Node
import Gen.Broadcast

/-!
GenTie.BroadcastRule — `NetworkManager.broadcast_message`, regenerated: one loop over the active peers, the send to each inside its
own `try` whose handlers (selector errors: `ValueError`, `KeyError`, `OSError`) only log.

* a send that fails with one of those errors does not end the loop: every active peer is sent to, whatever happens at the others
  (this is what C09 / C10 / C12 mean by "is relayed / broadcast": the model's `Node.broadcast` queues the message for every active
  peer);
* no such error leaves the method; anything else does, after the failing send.
-/

namespace GenTie.Broadcast
open Gen

theorem goes_on_iff (e : SendEnd) : broadcast_goes_on e = true ↔ e ≠ .otherError := by
  cases e <;> decide

/-- with only selector-type failures every recipient is sent to and nothing escapes -/
theorem every_recipient_is_sent_to (ends : List SendEnd) (h : ∀ e ∈ ends, e ≠ .otherError) :
    broadcast_message ends = (ends.length, false) := by
  induction ends with
  | nil => rfl
  | cons e rest ih =>
    have he : broadcast_goes_on e = true := (goes_on_iff e).mpr (h e List.mem_cons_self)
    have hr := ih (fun x hx => h x (List.mem_cons_of_mem _ hx))
    simp [broadcast_message, he, hr]

/-- in particular a failing recipient in front of a healthy one does not keep the message from the healthy one -/
theorem failing_peer_does_not_stop_the_broadcast (before after : List SendEnd) (bad : SendEnd)
    (hb : bad = .valueError ∨ bad = .keyError ∨ bad = .osError)
    (h1 : ∀ e ∈ before, e ≠ .otherError) (h2 : ∀ e ∈ after, e ≠ .otherError) :
    (broadcast_message (before ++ bad :: after)).1 = before.length + 1 + after.length := by
  have : ∀ e ∈ before ++ bad :: after, e ≠ SendEnd.otherError := by
    intro e he
    rcases List.mem_append.mp he with h | h
    · exact h1 e h
    · rcases List.mem_cons.mp h with h | h
      · subst h; rcases hb with hb | hb | hb <;> simp [hb]
      · exact h2 e h
  rw [every_recipient_is_sent_to _ this]
  simp only [List.length_append, List.length_cons]
  omega

theorem recipients_are_the_active_peers : broadcast_recipients = "self.get_active_peers()" := by decide

end GenTie.Broadcast

import Model.SendPath
import Gen.CanSendEffects
import Gen.SendMessageEffects

/-!
GenTie.SendPathRule — `ConnectedRemotePeer.send_message` and `ConnectedRemotePeer.handle_can_send`, translated from the current
source as effect trees over their two tests (`len(self.send_buffer) == 0`, `len(self.send_backlog) == 0`), are the model's
`SendSt.queue` and one unfolding of `canSendAux`: the buffer is advanced by what the socket accepted, writing is switched off only
when everything in flight was accepted and nothing is queued, the next queued frame goes in flight exactly when the flight buffer
is empty, and the handler calls itself again only then. `Props/SendPath.lean` proves, of that model, that nothing queued is lost,
duplicated or reordered and that a connection never holds unsent bytes without waiting for its socket.
-/

namespace GenTie
open Model

/-- what an effect token does to the write side of a connection; `k` is what the socket accepts in this `send` call, `frame` the
framed message of this `send_message` call -/
def applyTok (k : Nat) (frame : Bytes) (s : SendSt) : String → SendSt
  | "append_frame_to_backlog" => { s with backlog := s.backlog ++ [frame] }
  | "next_frame_in_flight" =>
    (match s.backlog with
      | f :: rest => { s with buffer := f, backlog := rest }
      | [] => s)
  | "start_writing" => { s with writing := true }
  | "stop_writing" => { s with writing := false }
  | "send_buffer_to_socket" => { s with wire := s.wire ++ s.buffer.take (min k s.buffer.length) }
  | "drop_what_was_accepted" => { s with buffer := s.buffer.drop (min k (s.buffer.length)) }
  | _ => s

theorem send_message_effects_eq (fresh idle : Bool) :
    Gen.send_message_effects fresh idle =
      (["append_frame_to_backlog"] ++ (if idle then ["next_frame_in_flight", "start_writing"] else []), false) := by
  cases fresh <;> cases idle <;> rfl

theorem can_send_effects_eq (allAccepted nothingQueued : Bool) :
    Gen.can_send_effects allAccepted nothingQueued =
      (["send_buffer_to_socket", "drop_what_was_accepted"] ++
        (if allAccepted then (if nothingQueued then ["stop_writing"] else ["next_frame_in_flight", "again"]) else []), false) := by
  cases allAccepted <;> cases nothingQueued <;> rfl

/-- the model's `queue` is the translated `send_message` (whether or not the message answers another one) -/
theorem model_queue_is_translated (s : SendSt) (frame : Bytes) (fresh : Bool) :
    s.queue frame = (Gen.send_message_effects fresh s.buffer.isEmpty).1.foldl (applyTok 0 frame) s := by
  rw [send_message_effects_eq]
  unfold SendSt.queue
  cases hb : s.buffer.isEmpty
  · simp [applyTok, hb]
  · cases hq : s.backlog ++ [frame] with
    | nil => simp at hq
    | cons f rest => simp [applyTok, hb, hq]

/-- one call of the model's `handle_can_send` is the translated one: the effects up to the recursive call, and the recursive call
exactly when the translation makes it -/
theorem model_can_send_is_translated (acc : Nat → Nat) (fuel i : Nat) (s : SendSt) :
    canSendAux acc (fuel + 1) i s =
      (let sent := min (acc i) s.buffer.length
       let tr := (Gen.can_send_effects (s.buffer.drop sent).isEmpty s.backlog.isEmpty).1
       let s1 := (tr.filter (· ≠ "again")).foldl (applyTok (acc i) []) s
       if "again" ∈ tr then canSendAux acc fuel (i + 1) s1 else s1) := by
  simp only [can_send_effects_eq]
  conv => lhs; rw [canSendAux]
  cases hb : (s.buffer.drop (min (acc i) s.buffer.length)).isEmpty
  · simp [applyTok]
  · cases hq : s.backlog with
    | nil => simp [applyTok, hq]
    | cons f rest => simp [applyTok, hq]

/-- writing is switched off only after everything in flight was accepted with nothing queued; the handler calls itself again only
after putting the next frame in flight; the buffer is advanced after — and by — what the socket accepted -/
theorem can_send_orders (a q : Bool) :
    let tr := (Gen.can_send_effects a q).1
    ("stop_writing" ∈ tr ↔ (a = true ∧ q = true)) ∧ ("again" ∈ tr ↔ (a = true ∧ q = false)) ∧
    ("again" ∈ tr → tr.idxOf "next_frame_in_flight" < tr.idxOf "again") ∧
    tr.idxOf "send_buffer_to_socket" < tr.idxOf "drop_what_was_accepted" ∧ tr.count "send_buffer_to_socket" = 1 := by
  cases a <;> cases q <;> decide

end GenTie

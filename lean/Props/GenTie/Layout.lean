import Model.Types
import Gen.Layouts
import Gen.SigLayouts

/-!
GenTie.Layout — the byte layout of the eight record classes of datatypes.py, regenerated from `stream_deserialize` (as a codec
built from the model's combinators, the nested classes being parameters) and from `stream_serialize` (as an item list):

* the model's codecs **are** the regenerated decoders (up to the record constructors), so every round-trip and canonicity theorem
  of C07 about `OutRef.codec … BlockC.codec` is a theorem about the layouts the code has now;
* every encoder writes, field by field, what its decoder reads (same fields, same order, same kind and width; raw bytes are
  written where a fixed number is read — the width is the decoder's), and every decoder passes the fields to the constructor in
  the order read;
* the cached ids are hashes of the raw bytes of the whole transaction / of the header only.
-/

namespace GenTie
open Model Model.Codec Gen.Layout

/-- a written item matches a read item: same field, same kind and parameter (the writer does not name widths of raw bytes or
the classes of nested values) -/
def itemAgrees (w r : String × String × String) : Bool :=
  (w.2.2 == r.2.2) &&
  (((w.1 == r.1) && ((w.2.1 == r.2.1) || (w.2.1 == ""))) || ((w.1 == "raw") && (r.1 == "fixed")))

def agree (w r : List (String × String × String)) : Bool :=
  (w.length == r.length) && (List.zipWith itemAgrees w r).all id

def fieldsOf (items : List (String × String × String)) : List String :=
  (items.map (·.2.2)).filter (· != "")

theorem encoders_write_what_decoders_read :
    agree OutputReference.writerItems OutputReference.readerItems = true ∧
    agree Input.writerItems Input.readerItems = true ∧
    agree Output.writerItems Output.readerItems = true ∧
    agree Transaction.writerItems Transaction.readerItems = true ∧
    agree PowEvidence.writerItems PowEvidence.readerItems = true ∧
    agree BlockSummary.writerItems BlockSummary.readerItems = true ∧
    agree BlockHeader.writerItems BlockHeader.readerItems = true ∧
    agree Block.writerItems Block.readerItems = true := by decide

theorem decoders_construct_in_field_order :
    OutputReference.ctor = fieldsOf OutputReference.readerItems ∧
    Input.ctor = fieldsOf Input.readerItems ∧
    Output.ctor = fieldsOf Output.readerItems ∧
    Transaction.ctor = fieldsOf Transaction.readerItems ++ ["cached_hash"] ∧
    PowEvidence.ctor = fieldsOf PowEvidence.readerItems ∧
    BlockSummary.ctor = fieldsOf BlockSummary.readerItems ∧
    BlockHeader.ctor = fieldsOf BlockHeader.readerItems ∧
    Block.ctor = fieldsOf Block.readerItems ++ ["hash"] := by decide

/-- the cached id of a transaction covers all of its bytes; that of a block the header only -/
theorem hashed_spans :
    Transaction.hashSpan = some (0, Transaction.readerItems.length, "cached_hash") ∧
    Block.hashSpan = some (0, 1, "hash") ∧
    (Block.readerItems.take 1).map (·.1) = ["nested"] ∧
    OutputReference.hashSpan = none ∧ Input.hashSpan = none ∧ Output.hashSpan = none ∧ PowEvidence.hashSpan = none ∧
    BlockSummary.hashSpan = none ∧ BlockHeader.hashSpan = none := by decide

/-- the model's codecs are the regenerated decoders -/
theorem model_codecs_are_translated :
    OutRef.codec = iso (fun p => ⟨p.1, p.2⟩) (fun r => (r.hash, r.index)) OutputReference.reader ∧
    Model.Input.codec = iso (fun p => ⟨p.1, p.2⟩) (fun i => (i.ref, i.sig)) (Input.reader OutRef.codec Sig.codec) ∧
    Model.Output.codec = iso (fun p => ⟨p.1, p.2⟩) (fun o => (o.value, o.pk)) (Output.reader pkCodec) ∧
    Tx.codec = iso (fun p => ⟨p.2.1, p.2.2⟩) (fun t => ((), t.inputs, t.outputs))
      (Transaction.reader Model.Input.codec Model.Output.codec) ∧
    Evidence.codec = iso (fun p => ⟨p.1, p.2.1, p.2.2⟩) (fun e => (e.summaryHash, e.chainSample, e.blockHash))
      PowEvidence.reader ∧
    Summary.codec = iso (fun p => ⟨p.1, p.2.1, p.2.2.1, p.2.2.2.1, p.2.2.2.2.1, p.2.2.2.2.2⟩)
      (fun s => (s.height, s.prev, s.merkleRoot, s.timestamp, s.target, s.nonce)) BlockSummary.reader ∧
    Header.codec = iso (fun p => ⟨p.2.1, p.2.2⟩) (fun h => ((), h.summary, h.evidence))
      (BlockHeader.reader Summary.codec Evidence.codec) ∧
    BlockC.codec = iso (fun p => ⟨p.1, p.2⟩) (fun b => (b.header, b.txs)) (Block.reader Header.codec Tx.codec) := by
  refine ⟨rfl, rfl, rfl, rfl, rfl, rfl, rfl, rfl⟩

/-! ### signatures and public keys (signing.py): type byte, then the variant -/

open Gen.SigLayout in
/-- the dispatch tables: three kinds of signature field (placeholder 0, reward data 1, SECP256k1 signature 2), one kind of key -/
theorem type_byte_dispatch :
    Signature.dispatch = [(0, "SignableEquivalent"), (1, "CoinbaseData"), (2, "SECP256k1Signature")] ∧
    PublicKey.dispatch = [(2, "SECP256k1PublicKey")] := by decide

open Gen.SigLayout in
/-- every variant's encoder writes the type byte its dispatcher tests for, then what the variant's decoder reads -/
theorem variants_write_tag_then_what_is_read :
    SignableEquivalent.writerItems = ("const", "0", "") :: [] ∧ SignableEquivalent.readerItems = [] ∧
    CoinbaseData.writerItems.head? = some ("const", "1", "") ∧
      agree CoinbaseData.writerItems.tail CoinbaseData.readerItems = true ∧
    SECP256k1Signature.writerItems.head? = some ("const", "2", "") ∧
      agree SECP256k1Signature.writerItems.tail SECP256k1Signature.readerItems = true ∧
    SECP256k1PublicKey.writerItems.head? = some ("const", "2", "") ∧
      agree SECP256k1PublicKey.writerItems.tail SECP256k1PublicKey.readerItems = true ∧
    CoinbaseData.ctor = fieldsOf CoinbaseData.readerItems ∧
    SECP256k1Signature.ctor = fieldsOf SECP256k1Signature.readerItems ∧
    SECP256k1PublicKey.ctor = fieldsOf SECP256k1PublicKey.readerItems := by decide

open Gen.SigLayout in
/-- the model's key codec is the regenerated one behind its type byte -/
theorem pk_codec_is_translated :
    pkCodec = iso (fun p => p.2) (fun k => ((), k)) (seq (const [2]) SECP256k1PublicKey.reader) := rfl

open Gen.SigLayout in
/-- the model's signature-field decoder is the regenerated dispatch over the regenerated variant decoders -/
theorem sig_codec_dec_is_translated (bs : Bytes) :
    Sig.codec.dec bs =
      match bs with
      | [] => none
      | t :: r =>
        if t = 0 then (match SignableEquivalent.reader.dec r with | none => none | some (_, r') => some (.signable, r'))
        else if t = 1 then
          (match CoinbaseData.reader.dec r with | none => none | some ((h, d), r') => some (.coinbase h d, r'))
        else if t = 2 then
          (match SECP256k1Signature.reader.dec r with | none => none | some (x, r') => some (.secp x, r'))
        else none := by
  cases bs with
  | nil => rfl
  | cons t r =>
    simp only [Sig.codec, SignableEquivalent.reader, CoinbaseData.reader, SECP256k1Signature.reader, Codec.skip,
      List.length_nil, Nat.zero_le, ↓reduceIte, List.drop_zero]
    split <;> first | rfl | (split <;> first | rfl | (split <;> rfl))

open Gen.SigLayout in
theorem sig_codec_enc_is_translated (s : Sig) :
    Sig.codec.enc s =
      match s with
      | .signable => [0] ++ SignableEquivalent.reader.enc ()
      | .coinbase h d => [1] ++ CoinbaseData.reader.enc (h, d)
      | .secp x => [2] ++ SECP256k1Signature.reader.enc x := by
  cases s <;> first | rfl | (simp [Sig.codec, CoinbaseData.reader, SECP256k1Signature.reader, SignableEquivalent.reader, Codec.seq, Codec.fixed, Codec.skip]; done)

end GenTie

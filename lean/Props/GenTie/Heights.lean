import Gen.GetRecentBlockHeights
import Gen.IsTimeToConnect

set_option linter.unusedSimpArgs false

namespace GenTie

theorem filter_map_sub (L : List Nat) (h : Nat) :
    ((L.map (fun (o : Nat) => (h : Int) - (o : Int))).filter (fun x => decide (x ≥ (0 : Int))))
      = ((L.filter (fun o => decide (o ≤ h))).map (fun o => ((h - o : Nat) : Int))) := by
  induction L with
  | nil => rfl
  | cons o L ih =>
    simp only [List.map_cons, List.filter_cons]
    by_cases ho : o ≤ h
    · have : (h : Int) - (o : Int) ≥ 0 := by omega
      simp only [this, ho, decide_true, if_true, List.map_cons, ih]
      congr 1; omega
    · have : ¬ ((h : Int) - (o : Int) ≥ 0) := by omega
      simp only [this, ho, decide_false, ih]
      simp

theorem oldness_eq :
    ((List.range' 0 10).map (fun (x : Nat) => (x : Int))) ++
      (((List.range' 4 60).map (fun (x : Nat) => (x : Int))).map (fun x => x ^ 2))
    = Model.oldness.map (fun (o : Nat) => (o : Int)) := by decide

/-- the locator heights the code computes are the model's, for every non-negative head height -/
theorem get_recent_block_heights_eq (h : Nat) :
    Gen.get_recent_block_heights (h : Int) = (Model.recentHeights h).map (fun (x : Nat) => (x : Int)) := by
  unfold Gen.get_recent_block_heights Model.recentHeights
  first
  | (dsimp only
     rw [oldness_eq]
     have := filter_map_sub Model.oldness h
     simp only [List.map_map, Function.comp_def, List.map_id'] at this ⊢
     exact this)
  | (have := filter_map_sub Model.oldness h
     simp_all [oldness_eq, Function.comp_def]
     done)
  | (-- the filter written before the map: `[h - o for o in oldness if h - o >= 0]`
     dsimp only
     rw [oldness_eq, List.filter_map, List.map_map]
     have hf : (Model.oldness.filter ((fun (o : Int) => decide ((h : Int) - o ≥ 0)) ∘ fun (o : Nat) => (o : Int)))
         = Model.oldness.filter (fun o => decide (o ≤ h)) := by
       apply List.filter_congr
       intro o _
       simp only [Function.comp]
       by_cases ho : o ≤ h
       · have : (h : Int) - (o : Int) ≥ 0 := by omega
         simp [ho, this]
       · have : ¬ ((h : Int) - (o : Int) ≥ 0) := by omega
         simp [ho, this]
     rw [hf, List.map_map]
     apply List.map_congr_left
     intro o ho
     have : o ≤ h := by simpa using (List.mem_filter.mp ho).2
     simp only [Function.comp]
     omega)

/-- the code's `is_time_to_connect`, as translated now (either of two known shapes), is the model's -/
theorem is_time_to_connect_eq (ban : Nat) (last : Option Int) (now : Int) :
    Gen.is_time_to_connect ban last now = Model.isTimeToConnect Gen.params ban last now := by
  first
  | (
    unfold Gen.is_time_to_connect Model.isTimeToConnect
    simp only [Gen.params]
    have hp : ((2 : Int) ^ ban) = (((2 : Nat) ^ ban : Nat) : Int) := by simp
    cases last with
    | none => simp
    | some t =>
      simp only [Option.isNone_some, Option.getD_some, Bool.false_or]
      rw [hp]
      generalize (2 : Nat) ^ ban = p
      by_cases hb : ban > Gen.MAX_CONNECTION_ATTEMPTS
      · have : ((ban : Nat) : Int) > (Gen.MAX_CONNECTION_ATTEMPTS : Int) := by omega
        simp [hb, this]
      · have : ¬ (((ban : Nat) : Int) > (Gen.MAX_CONNECTION_ATTEMPTS : Int)) := by omega
        simp only [hb, this, decide_false, if_false, Bool.false_eq_true]
        congr 1
        simp only [Gen.TIME_TO_SECOND_CONNECTION_ATTEMPT, Gen.MAX_TIME_BETWEEN_CONNECTION_ATTEMPTS]
        apply propext
        constructor <;> intro h <;> omega
    )
  | (
    unfold Gen.is_time_to_connect Model.isTimeToConnect
    simp only [Gen.params]
    have hp : ((2 : Int) ^ ban) = (((2 : Nat) ^ ban : Nat) : Int) := by simp
    rw [hp]
    generalize (2 : Nat) ^ ban = p
    by_cases hb : ban > Gen.MAX_CONNECTION_ATTEMPTS
    · have : ((ban : Nat) : Int) > (Gen.MAX_CONNECTION_ATTEMPTS : Int) := by omega
      simp [hb, this]
    · have : ¬ (((ban : Nat) : Int) > (Gen.MAX_CONNECTION_ATTEMPTS : Int)) := by omega
      simp only [hb, this, decide_false, if_false, Bool.false_eq_true]
      cases last with
      | none => simp
      | some t =>
        simp only [Option.isNone_some, Option.getD_some, Bool.false_or, Bool.false_eq_true, if_false]
        simp only [Gen.TIME_TO_SECOND_CONNECTION_ATTEMPT, Gen.MAX_TIME_BETWEEN_CONNECTION_ATTEMPTS]
        by_cases h1 : now - t ≥ min (10 * (p : Int)) 1800
        · have h2 : now ≥ t + min (10 * (p : Int)) 1800 := by omega
          simp [h1, h2]; omega
        · have h2 : ¬ now ≥ t + min (10 * (p : Int)) 1800 := by omega
          simp [h1, h2]; omega
    )

end GenTie

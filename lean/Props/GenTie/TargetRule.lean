import Proofs.Validation
import Gen.CalcTargetRule

/-!
GenTie.TargetRule — `calc_target`, translated from the current source over declared atoms (the timestamp of the block the
head-of-parent index holds at a given height, and `calculate_new_target`, itself tied in `GenTie.Target`), is the model's
`calcTarget`: only at heights that are multiples of the readjustment interval, from the block **one interval below**, over the
time from **that block's timestamp to the new block's own timestamp**; otherwise the parent's target.
-/

set_option linter.unusedSimpArgs false
set_option linter.unusedVariables false

namespace GenTie
open Model

/-- the translated rule, in closed form over the naturals -/
theorem calc_target_rule_eq (height ts : Nat) (prevTarget : Bytes) (startTsAt : Int → Nat)
    (newTarget : Bytes → Int → Bytes) :
    Gen.calc_target_rule height ts prevTarget startTsAt newTarget =
      if height % Gen.BLOCKS_BETWEEN_TARGET_READJUSTMENT = 0 then
        newTarget prevTarget ((ts : Int) - (startTsAt ((height : Int) - (Gen.BLOCKS_BETWEEN_TARGET_READJUSTMENT : Int)) : Int))
      else prevTarget := by
  unfold Gen.calc_target_rule
  have hpos : (0 : Int) < (Gen.BLOCKS_BETWEEN_TARGET_READJUSTMENT : Int) := by decide
  have hm : Int.fmod (height : Int) (Gen.BLOCKS_BETWEEN_TARGET_READJUSTMENT : Int)
      = ((height % Gen.BLOCKS_BETWEEN_TARGET_READJUSTMENT : Nat) : Int) := by
    rw [Int.fmod_eq_emod_of_nonneg _ (Int.le_of_lt hpos)]
    omega
  rw [hm]
  by_cases h : height % Gen.BLOCKS_BETWEEN_TARGET_READJUSTMENT = 0
  · have : (((height % Gen.BLOCKS_BETWEEN_TARGET_READJUSTMENT : Nat) : Int) = 0) := by omega
    simp [h, this]
  · have : ¬ (((height % Gen.BLOCKS_BETWEEN_TARGET_READJUSTMENT : Nat) : Int) = 0) := by omega
    simp only [h, this, decide_false, Bool.false_eq_true, ↓reduceIte]

/-- whenever the model's `calcTarget` yields a target, it is the translated rule's, with the atoms read off the model: the
start block's timestamp from the parent's by-height index, and `newTarget` on the (non-negative) elapsed time -/
theorem model_calc_target_as_translated (C : Crypto) (cs : CoinState) (height ts : Nat) (pb : Block) (t : Bytes)
    (h : calcTarget C Gen.params cs height ts pb = .ok t) :
    t = Gen.calc_target_rule height ts pb.target
      (fun hh => match (cs.byHeightAt.get? (pb.id C)).bind (·.get? hh.toNat) with | some sb => sb.timestamp | none => 0)
      (fun tg dt => newTarget Gen.params tg dt.toNat) := by
  rw [calc_target_rule_eq]
  unfold calcTarget at h
  have hI : Gen.params.retargetInterval = Gen.BLOCKS_BETWEEN_TARGET_READJUSTMENT := rfl
  rw [hI] at h
  by_cases hm : height % Gen.BLOCKS_BETWEEN_TARGET_READJUSTMENT = 0
  · simp only [hm, ↓reduceIte] at h ⊢
    split at h
    · cases h
    · rename_i sb hsb
      split at h
      · cases h
      · rename_i hge
        split at h
        · cases h
        · rename_i hts
          simp only [Except.ok.injEq] at h
          have hsub : (((height : Int) - (Gen.BLOCKS_BETWEEN_TARGET_READJUSTMENT : Int))).toNat
              = height - Gen.BLOCKS_BETWEEN_TARGET_READJUSTMENT := by omega
          simp only [hsub, hsb]
          have : ((ts : Int) - (sb.timestamp : Int)).toNat = ts - sb.timestamp := by omega
          rw [this]
          exact h.symm
  · simp only [hm, ↓reduceIte, Except.ok.injEq] at h ⊢
    exact h.symm

end GenTie

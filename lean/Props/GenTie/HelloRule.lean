import Model.PeerBook
import Proofs.Map
import Gen.HelloEffects

/-!
GenTie.HelloRule — `ConnectedRemotePeer.handle_hello_message_received`, translated from the current source as an effect tree, is the
model's `Book.apply (.hello …)` for a connection recorded in the book: the peer is marked as greeted and its failure count reset;
for an incoming connection the reverse (outgoing) address is added to the waiting map **only if it is neither waiting nor
connected** (nothing known about it is overwritten); for an outgoing connection whose greeting carries the node's own nonce the
**dialled** address is remembered as the node's own and the connection is dropped.
-/

set_option linter.unusedSimpArgs false
set_option linter.unusedVariables false

namespace GenTie
open Model

def runHelloEffect (k : PeerKey) (myPort : Nat) (b : Book) : String → Book
  | "mark_greeted" =>
      (match b.connected.get? k with
        | some p => { b with connected := b.connected.set k { p with helloReceived := true } }
        | none => b)
  | "reset_failures" =>
      (match b.connected.get? k with
        | some p => { b with connected := b.connected.set k { p with banScore := 0 } }
        | none => b)
  | "announce_reverse" => { b with disconnected := b.disconnected.set ⟨k.host, myPort, true⟩ ⟨none, 0⟩ }
  | "remember_own_address" => { b with myAddresses := (k.host, k.port) :: b.myAddresses }
  | "drop_self" => (match b.connected.get? k with | some p => b.disconnect k p.serial | none => b)
  | _ => b                                  -- sanity_check, write_peers: the book is not changed

theorem set_set {κ ν : Type} [DecidableEq κ] (m : Map κ ν) (k : κ) (v w : ν) : (m.set k v).set k w = m.set k w := by
  simp only [Map.set, Map.erase]
  congr 1
  simp only [List.filter_cons, ne_eq, not_true_eq_false, decide_false, Bool.false_eq_true, ↓reduceIte, List.filter_filter]
  congr 1
  funext p
  simp

/-- the refinement, for a connection recorded under `k` -/
theorem model_hello_is_translated_effects (P : Params) (b : Book) (k : PeerKey) (p : ConnPeer) (mine : Bool) (myPort : Nat)
    (hk : b.connected.get? k = some p) :
    let p' : ConnPeer := { p with helloReceived := true, banScore := 0 }
    let b₁ : Book := { b with connected := b.connected.set k p' }
    let rk : PeerKey := ⟨k.host, myPort, true⟩
    let eff := Gen.hello_effects (!k.outgoing) k.outgoing (b₁.disconnected.contains rk) (b₁.connected.contains rk) mine
    Book.apply P b (.hello k mine myPort) = eff.1.foldl (runHelloEffect k myPort) b ∧ eff.2 = false := by
  intro p' b₁ rk eff
  have hg : ((b.connected.set k { p with helloReceived := true }).get? k) = some { p with helloReceived := true } :=
    Map.get?_set_self _ _ _
  have hstep2 : (List.foldl (runHelloEffect k myPort) b ["mark_greeted", "reset_failures"]) = b₁ := by
    simp only [List.foldl_cons, List.foldl_nil, runHelloEffect, hk, hg, b₁, p', set_set]
  simp only [Book.apply, hk, eff, Gen.hello_effects]
  cases hko : k.outgoing
  · -- incoming
    simp only [Bool.not_false, ↓reduceIte, Bool.false_and, Bool.false_eq_true]
    unfold Book.announce
    by_cases hw : b₁.disconnected.contains rk = true
    · simp only [hw, ↓reduceIte, rk, b₁, p'] at *
      simp [runHelloEffect, hk, hg, set_set]
    · have hw' : b₁.disconnected.contains rk = false := by simpa using hw
      by_cases hc : b₁.connected.contains rk = true
      · simp only [hw', hc, rk, b₁, p', Bool.false_eq_true, ↓reduceIte, Bool.not_true] at *
        simp [runHelloEffect, hk, hg, set_set, hw', hc]
      · have hc' : b₁.connected.contains rk = false := by simpa using hc
        simp only [hw', hc', rk, b₁, p', Bool.false_eq_true, ↓reduceIte, Bool.not_false] at *
        simp [runHelloEffect, hk, hg, set_set, hw', hc']
  · -- outgoing
    simp only [Bool.not_true, Bool.false_eq_true, ↓reduceIte, Bool.true_and]
    cases mine
    · simp only [Bool.false_eq_true, ↓reduceIte]
      by_cases hw : b₁.disconnected.contains rk = true
      · simp [hw, runHelloEffect, hk, hg, set_set, b₁, p']
      · have hw' : b₁.disconnected.contains rk = false := by simpa using hw
        by_cases hc : b₁.connected.contains rk = true <;>
          simp [hw', hc, runHelloEffect, hk, hg, set_set, b₁, p']
    · have hg2 : (b.connected.set k p').get? k = some p' := Map.get?_set_self _ _ _
      by_cases hw : b₁.disconnected.contains rk = true
      · simp [hw, runHelloEffect, hk, hg, set_set, b₁, p', hg2]
      · have hw' : b₁.disconnected.contains rk = false := by simpa using hw
        by_cases hc : b₁.connected.contains rk = true <;>
          simp [hw', hc, runHelloEffect, hk, hg, set_set, b₁, p', hg2]

end GenTie

import Model.Wallet
import Gen.GetBalance

/-!
GenTie.BalanceRule — `Wallet.get_balance`, translated from the current source, is the model's `Wallet.balance`: the sum over the
handed-out (annotated) keys **and** the unused keys of the value of each key's balance entry at the head, 0 for a key without an
entry; the wallet is not changed by asking.
-/

namespace GenTie
open Model

theorem get_balance_eq (w : Wallet) (bal : PKBalances) :
    Gen.get_balance (w.annotations.map (·.1)) w.unused bal = w.balance bal := by
  unfold Gen.get_balance Wallet.balance
  first
    | (congr 1; apply List.map_congr_left; intro pk _; unfold pkValue; cases bal.get? pk <;> rfl)
    | (have h : ∀ pk, ((bal.get? pk).getD ⟨0, []⟩).value = pkValue bal pk := by
        intro pk; unfold pkValue; cases bal.get? pk <;> rfl
       simp [h, List.sum_append, Int.add_comm])

end GenTie

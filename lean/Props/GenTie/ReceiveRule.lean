import Model.Framing
import Proofs.Framing
import Gen.ReceivePass

/-!
GenTie.ReceiveRule — `MessageReceiver.receive`, translated from the current source as one pass over its body
(`Gen.receive_pass`: the magic test, the length test, the delivery, with the exact slices and comparisons of the code), is the
model's `recv`: the model is that pass, iterated after every delivery that returns.
-/

set_option linter.unusedSimpArgs false
set_option linter.unusedVariables false

namespace GenTie
open Model

/-- `recv` once the two header phases have settled -/
theorem recv_of_settle (bad : Bytes → Bool) (magic : Bytes) (maxSize : Nat) (st s₂ : RState)
    (hs : settle magic maxSize st = .ok s₂) :
    recv magic maxSize bad st =
      (match s₂.len with
        | none => ⟨s₂, [], none⟩
        | some n =>
          if n ≤ s₂.buffer.length then
            (if bad (s₂.buffer.take n) then ⟨s₂, [], some .handler⟩
             else
              ⟨(recv magic maxSize bad ⟨s₂.buffer.drop n, false, none⟩).st,
               s₂.buffer.take n :: (recv magic maxSize bad ⟨s₂.buffer.drop n, false, none⟩).payloads,
               (recv magic maxSize bad ⟨s₂.buffer.drop n, false, none⟩).err⟩)
          else ⟨s₂, [], none⟩) := by
  cases hl : s₂.len with
  | none => simpa using recv_none magic maxSize bad hs hl
  | some n =>
    by_cases hn : n ≤ s₂.buffer.length
    · cases hb : bad (s₂.buffer.take n) with
      | true => simpa [hn, hb] using recv_bad magic maxSize bad hs hl hn hb
      | false => simpa [hn, hb] using recv_good magic maxSize bad hs hl hn hb
    · simpa [hn] using recv_short magic maxSize bad hs hl hn

/-- what one translated pass says, in the model's vocabulary -/
def ofPass (bad : Bytes → Bool) (st : RState) : Gen.PassOut → RResult
  | .raised msg => ⟨st, [], some (if msg = "Insufficient magic" then .magic else .tooBig)⟩
  | .idle b m l => ⟨⟨b, m, l⟩, [], none⟩
  | .deliver payload b m l after =>
      if bad payload then ⟨⟨b, m, l⟩, [], some .handler⟩
      else
        let r := recv Gen.MAGIC Gen.MAX_MESSAGE_SIZE bad ⟨after.1, after.2.1, after.2.2⟩
        ⟨r.st, payload :: r.payloads, r.err⟩

/-- closes a leaf of the case analysis: the translated pass, with the case's facts, reduces to the model's result. The first
alternative is the shape of the pinned source; the others absorb equivalent ways of writing the tests -/
macro "recv_leaf" : tactic => `(tactic| first
  | (simp_all [Gen.receive_pass, ofPass]; done)
  | (simp_all [Gen.receive_pass, ofPass] <;> omega)
  | (simp_all [Gen.receive_pass, ofPass] <;> grind)
  | (simp [Gen.receive_pass, ofPass] <;> grind))

theorem recv_as_translated (bad : Bytes → Bool) (st : RState) :
    recv Gen.MAGIC Gen.MAX_MESSAGE_SIZE bad st = ofPass bad st (Gen.receive_pass st.buffer st.magicRead st.len) := by
  obtain ⟨buffer, magicRead, len⟩ := st
  cases h1 : (!magicRead && decide (4 ≤ buffer.length))
  · -- the magic phase does not fire
    cases h3 : (len.isNone && decide (4 ≤ buffer.length))
    · have hs : settle Gen.MAGIC Gen.MAX_MESSAGE_SIZE ⟨buffer, magicRead, len⟩ = .ok ⟨buffer, magicRead, len⟩ := by
        simp only [settle, phaseM, phaseL, h1, h3, Bool.false_eq_true, ↓reduceIte]
      rw [recv_of_settle _ _ _ _ _ hs]
      cases len with
      | none => recv_leaf
      | some n =>
        by_cases hn : n ≤ buffer.length <;> cases hb : bad (List.take n buffer) <;> recv_leaf
    · by_cases h4 : bytesToNat (buffer.take 4) > Gen.MAX_MESSAGE_SIZE
      · have hs : settle Gen.MAGIC Gen.MAX_MESSAGE_SIZE ⟨buffer, magicRead, len⟩ = .error .tooBig := by
          simp only [settle, phaseM, phaseL, h1, h3, h4, Bool.false_eq_true, ↓reduceIte]
        rw [recv_err _ _ _ hs]
        recv_leaf
      · have hs : settle Gen.MAGIC Gen.MAX_MESSAGE_SIZE ⟨buffer, magicRead, len⟩ =
            .ok ⟨buffer.drop 4, magicRead, some (bytesToNat (buffer.take 4))⟩ := by
          simp only [settle, phaseM, phaseL, h1, h3, h4, Bool.false_eq_true, ↓reduceIte]
        rw [recv_of_settle _ _ _ _ _ hs]
        by_cases hn : bytesToNat (List.take 4 buffer) ≤ buffer.length - 4 <;>
          cases hb : bad (List.take (bytesToNat (List.take 4 buffer)) (List.drop 4 buffer)) <;> recv_leaf
  · by_cases h2 : buffer.take 4 = Gen.MAGIC
    · cases h3 : (len.isNone && decide (4 ≤ (buffer.drop 4).length))
      · have hs : settle Gen.MAGIC Gen.MAX_MESSAGE_SIZE ⟨buffer, magicRead, len⟩ = .ok ⟨buffer.drop 4, true, len⟩ := by
          simp only [settle, phaseM, phaseL, h1, h2, h3, Bool.false_eq_true, ↓reduceIte, not_true_eq_false, ne_eq]
        rw [recv_of_settle _ _ _ _ _ hs]
        cases len with
        | none => recv_leaf
        | some n =>
          by_cases hn : n ≤ buffer.length - 4 <;> cases hb : bad (List.take n (List.drop 4 buffer)) <;> recv_leaf
      · by_cases h4 : bytesToNat ((buffer.drop 4).take 4) > Gen.MAX_MESSAGE_SIZE
        · have hs : settle Gen.MAGIC Gen.MAX_MESSAGE_SIZE ⟨buffer, magicRead, len⟩ = .error .tooBig := by
            simp only [settle, phaseM, phaseL, h1, h2, h3, h4, Bool.false_eq_true, ↓reduceIte, not_true_eq_false, ne_eq]
          rw [recv_err _ _ _ hs]
          recv_leaf
        · have hs : settle Gen.MAGIC Gen.MAX_MESSAGE_SIZE ⟨buffer, magicRead, len⟩ =
              .ok ⟨(buffer.drop 4).drop 4, true, some (bytesToNat ((buffer.drop 4).take 4))⟩ := by
            simp only [settle, phaseM, phaseL, h1, h2, h3, h4, Bool.false_eq_true, ↓reduceIte, not_true_eq_false, ne_eq]
          rw [recv_of_settle _ _ _ _ _ hs]
          by_cases hn : bytesToNat (List.take 4 (List.drop 4 buffer)) ≤ buffer.length - 8 <;>
            cases hb : bad (List.take (bytesToNat (List.take 4 (List.drop 4 buffer))) (List.drop 8 buffer)) <;>
              recv_leaf
    · have hs : settle Gen.MAGIC Gen.MAX_MESSAGE_SIZE ⟨buffer, magicRead, len⟩ = .error .magic := by
        simp only [settle, phaseM, h1, h2, ↓reduceIte, not_false_eq_true, ne_eq]
      rw [recv_err _ _ _ hs]
      recv_leaf

end GenTie

import Model.Fetch
import Gen.ShouldFetch
import Gen.InventoryBatchHandled
import Gen.IbdCandidateOk
import Gen.StillFetching
import Gen.ChainStepEffects

/-!
GenTie.FetchRule — `ChainManager.step` (when a node asks a peer for blocks on its own initiative), translated from the
current source, is the model's `chainStep`:

* `should_actively_fetch_blocks`, `inventory_batch_handled`, the filter of `ibd_candidates` and the filter that keeps an
  entry of `actively_fetching_blocks_from_peers` are translated as Boolean functions of their atoms and proved equal to the
  model's `shouldFetch`, `batchHandled`, `candidateOk`, `stillFetching` at the regenerated constants;
* the statement structure of `step` is translated as an effect tree; folding its effects over (node, scheduler state) is
  `chainStep` (refinement), an exception escapes in one exactly when it does in the other.
-/

set_option linter.unusedSimpArgs false
set_option linter.unusedVariables false

namespace GenTie
open Model

/-- the scheduler's constants as regenerated from networking/params.py -/
def fetchParams : FetchParams :=
  { maxIbdPeers := Gen.MAX_IBD_PEERS, ibdPeerTimeout := Gen.IBD_PEER_TIMEOUT,
    switchToActive := Gen.SWITCH_TO_ACTIVE_MODE_TIMEOUT, emptyBackoff := Gen.EMPTY_INVENTORY_BACKOFF }

theorem fetch_params :
    fetchParams.maxIbdPeers = 1 ∧ fetchParams.ibdPeerTimeout = 60 ∧ fetchParams.switchToActive = 300 ∧
    fetchParams.emptyBackoff = 60 := by decide

/-- Boolean functions of integer comparisons: equal when they agree as propositions (robust against reordering of the
operands of `and` / `or` and against equivalent ways of writing a comparison) -/
macro "bool_arith" : tactic => `(tactic| first
  | (simp; done)
  | (rw [Bool.eq_iff_iff]; simp; omega)
  | (rw [Bool.eq_iff_iff]; simp <;> omega)
  | (rw [Bool.eq_iff_iff]; simp; grind)
  | grind)

theorem should_fetch_eq (now headTs startedAt : Int) :
    Gen.should_fetch now headTs startedAt = shouldFetch fetchParams headTs startedAt now := by
  unfold Gen.should_fetch shouldFetch fetchParams
  have h : Int.fmod now (60 : Int) = now % 60 := Int.fmod_eq_emod_of_nonneg now (by decide)
  first
    | (simp only [h, Gen.SWITCH_TO_ACTIVE_MODE_TIMEOUT]; done)
    | (simp only [h, Gen.SWITCH_TO_ACTIVE_MODE_TIMEOUT]; bool_arith)

theorem inventory_batch_handled_eq (p : PeerSt) :
    Gen.inventory_batch_handled p.waitingForInventory p.pendingInventory.isEmpty = batchHandled p := by
  unfold Gen.inventory_batch_handled batchHandled
  cases p.waitingForInventory <;> cases p.pendingInventory.isEmpty <;> rfl

theorem ibd_candidate_ok_eq (now lastEmpty : Int) :
    Gen.ibd_candidate_ok now lastEmpty = candidateOk fetchParams now lastEmpty := by
  unfold Gen.ibd_candidate_ok candidateOk fetchParams
  first
    | (simp only [Gen.EMPTY_INVENTORY_BACKOFF]; done)
    | (simp only [Gen.EMPTY_INVENTORY_BACKOFF]; bool_arith)

theorem still_fetching_eq (now t : Int) (handled : Bool) :
    Gen.still_fetching now t handled = stillFetching now t handled := by
  unfold Gen.still_fetching stillFetching
  cases handled <;> bool_arith

/-- the model's candidate list is the selection by the translated filter from the active peers, in connection order -/
theorem candidates_as_translated (n : Node) (f : FetchSt) (now : Int) :
    candidates fetchParams n f now =
      (List.range n.peers.length).filter fun c =>
        match n.peers[c]? with
        | some p => p.active && Gen.ibd_candidate_ok now (f.lastEmpty c)
        | none => false := by
  unfold candidates
  simp only [ibd_candidate_ok_eq]
  first
    | rfl
    | (congr 1; funext c; cases n.peers[c]? <;> rfl)

/-- the model's pruned list is the selection by the translated filter, with the translated `inventory_batch_handled` -/
theorem prune_as_translated (n : Node) (f : FetchSt) (now : Int) :
    pruneFetching n f now =
      f.fetching.filter fun e =>
        Gen.still_fetching now e.1
          (match n.peers[e.2]? with
            | some p => Gen.inventory_batch_handled p.waitingForInventory p.pendingInventory.isEmpty
            | none => true) := by
  unfold pruneFetching
  simp only [still_fetching_eq, inventory_batch_handled_eq]
  first
    | rfl
    | (congr 1; funext e; cases n.peers[e.2]? <;> rfl)

/-- what each effect of `step` does to (node, scheduler state); `cands`, `loc`, `c` are the values the statements computed -/
def runStepEffect (n₀ : Node) (f₀ : FetchSt) (now : Int) (loc : List Bytes) (c : Nat) :
    Node × FetchSt → String → Node × FetchSt
  | (n, f), "select_candidates" => (n, f)                 -- a local list
  | (n, f), "prune" => (n, { f with fetching := pruneFetching n₀ f₀ now })
  | (n, f), "locator" => (n, f)                           -- builds the message
  | (n, f), "choose" => (n, f)                            -- a local
  | (n, f), "set_waiting" => (n.updatePeer c fun p => { p with waitingForInventory := true }, f)
  | (n, f), "append_fetching" => (n, { f with fetching := f.fetching ++ [(now + fetchParams.ibdPeerTimeout, c)] })
  | (n, f), "send" => (n.send c (.getBlocks loc), f)
  | s, _ => s

def okB4 {α : Type} (x : Except Err α) : Bool := match x with | .ok _ => true | .error _ => false

/-- the refinement: `chainStep` is the translated effect list folded over the state; when the locator cannot be built the
exception escapes in both (the model then reports the error; the pruned list had been stored) -/
theorem model_chain_step_is_translated_effects (C : Crypto) (n : Node) (f : FetchSt) (now : Int) (pick : Nat) (hd : Block)
    (hhead : n.mgr.coinstate.head = some hd) :
    let cands := candidates fetchParams n f now
    let c := cands.getD (pick % cands.length) 0
    let loc := match locator C n.mgr.coinstate with | .ok l => l | .error _ => []
    let eff := Gen.chain_step_effects
      (Gen.should_fetch now hd.header.summary.timestamp f.startedAt) cands.isEmpty
      (pruneFetching n f now).length (okB4 (locator C n.mgr.coinstate))
    (match chainStep C fetchParams n f now pick with
      | .ok (n', f') =>
          eff.2 = false ∧ (eff.1.foldl (runStepEffect n f now loc c) (n, f)).1 = n' ∧
          (eff.1.foldl (runStepEffect n f now loc c) (n, f)).2.fetching = f'.fetching ∧
          f'.startedAt = f.startedAt ∧ f'.lastEmpty = f.lastEmpty
      | .error _ => eff.2 = true) := by
  intro cands c loc eff
  unfold chainStep
  simp only [hhead, eff, should_fetch_eq, Gen.chain_step_effects]
  by_cases hs : shouldFetch fetchParams hd.header.summary.timestamp f.startedAt now = true
  · simp only [hs, Bool.not_true, Bool.false_eq_true, ↓reduceIte]
    by_cases hc : (candidates fetchParams n f now).isEmpty = true
    · simp [hc, cands, runStepEffect]
    · have hc' : (candidates fetchParams n f now).isEmpty = false := by simpa using hc
      simp only [cands, hc', Bool.false_eq_true, ↓reduceIte]
      have hmax : fetchParams.maxIbdPeers = Gen.MAX_IBD_PEERS := rfl
      by_cases hm : (pruneFetching n f now).length > Gen.MAX_IBD_PEERS
      · simp [hm, hmax, runStepEffect]
      · simp only [hm, hmax, decide_false, decide_true, Bool.false_eq_true, ↓reduceIte]
        cases hl : locator C n.mgr.coinstate with
        | error e => simp [okB4]
        | ok l =>
          simp [okB4, runStepEffect, loc, hl, c, cands]
  · have hs' : shouldFetch fetchParams hd.header.summary.timestamp f.startedAt now = false := by simpa using hs
    simp [hs']

end GenTie

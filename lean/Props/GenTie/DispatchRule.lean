import Model.Fetch
import Gen.DispatchEffects
import Gen.DataDispatchEffects
import Gen.InventoryEffects
import Gen.GetDataEffects
import Gen.CheckInventory

/-!
GenTie.DispatchRule — `ConnectedRemotePeer.handle_message_received` and the handlers it dispatches to, translated from the
current source, are the model's `handleMessage`:

* the dispatcher: a greeting is handled whether or not one was received before; anything else from a connection that has not
  greeted raises ("First message must be Hello") and nothing changes; otherwise the message goes to the handler of its class;
* `handle_data_message_received`: blocks and transactions go to their handlers, any other payload type raises;
* `handle_inventory_message_received`: over-limit raises; empty notes the time and clears the waiting flag; otherwise the
  batch is recorded, the data of every listed block that is not stored is requested (`check_inventory_messages`, translated
  as its two nested scans), and the next batch is asked for;
* `handle_get_data_message_received`: a non-block type raises, an unknown id is ignored, a stored block is sent.
-/

set_option linter.unusedSimpArgs false
set_option linter.unusedVariables false

namespace GenTie
open Model

def kindOf : InMsg → Nat
  | .hello _ _ => 0
  | .getBlocks _ => 1
  | .inventory _ => 2
  | .getData _ _ => 3
  | .dataBlock _ => 4
  | .dataTx _ => 4
  | .dataHeader => 4
  | .getPeers => 5
  | .peers => 6

def tokenOf : InMsg → String
  | .hello _ _ => "hello"
  | .getBlocks _ => "get_blocks"
  | .inventory _ => "inventory"
  | .getData _ _ => "get_data"
  | .dataBlock _ => "data"
  | .dataTx _ => "data"
  | .dataHeader => "data"
  | .getPeers => "get_peers"
  | .peers => "peers"

/-- every decoded message goes to the handler of its class, except that a connection that has not greeted may only greet -/
theorem dispatch_routes (m : InMsg) (helloReceived : Bool) :
    Gen.dispatch_effects (kindOf m) helloReceived =
      if kindOf m = 0 ∨ helloReceived = true then ([tokenOf m], false) else ([], true) := by
  cases m <;> cases helloReceived <;> first | rfl | (simp [Gen.dispatch_effects, kindOf, tokenOf]; done) | decide

/-- the model refuses exactly when the translated dispatcher raises, leaving the node as it was -/
theorem model_dispatch_is_translated (C : Crypto) (P : Params) (n : Node) (c : Nat) (p : PeerSt) (i r : Nat) (m : InMsg)
    (now : Int) (hp : n.peers[c]? = some p) :
    (Gen.dispatch_effects (kindOf m) p.helloReceived).2 = true →
      handleMessage C P n c i r m now = (n, some (.other "First message must be Hello")) := by
  intro h
  rw [dispatch_routes] at h
  cases m <;> cases hr : p.helloReceived <;> simp [kindOf, hr] at h <;>
    simp [handleMessage, hp, hr]

/-- payload dispatch: a block, a transaction, anything else raises -/
theorem data_dispatch_routes :
    Gen.data_dispatch_effects true false = (["block"], false) ∧
    Gen.data_dispatch_effects false true = (["transaction"], false) ∧
    Gen.data_dispatch_effects false false = ([], true) := by
  refine ⟨?_, ?_, ?_⟩ <;> first | rfl | decide

theorem model_data_header_raises (C : Crypto) (P : Params) (n : Node) (c : Nat) (p : PeerSt) (i r : Nat) (now : Int)
    (hp : n.peers[c]? = some p) (hg : p.helloReceived = true) :
    handleMessage C P n c i r .dataHeader now = (n, some (.other "NotImplementedError")) ∧
    (Gen.data_dispatch_effects false false).2 = true := by
  refine ⟨by simp [handleMessage, hp, hg], ?_⟩
  first | rfl | decide

/-! ### the inventory handler -/

def runInventoryEffect (blocksHas : Bytes → Bool) (c : Nat) (ids : List Bytes) : Node → String → Node
  | n, "note_empty" => n                        -- the scheduler's field (`Model.noteEmptyInventory`)
  | n, "clear_waiting" => n.updatePeer c fun p => { p with waitingForInventory := false }
  | n, "append_state" => n.updatePeer c fun p => { p with pendingInventory := p.pendingInventory ++ ids }
  | n, "request_missing" => (ids.filter fun i => !blocksHas i).foldl (fun nn i => nn.send c (.getData i)) n
  | n, "send_followup" => n.send c (.getBlocks [ids.getLast!])
  | n, _ => n

theorem inventory_limit_is_translated : Gen.params.inventorySize = Gen.GET_BLOCKS_INVENTORY_SIZE := by
  first | rfl | decide

/-- the refinement for a greeted connection -/
theorem model_inventory_is_translated_effects (C : Crypto) (n : Node) (c : Nat) (p : PeerSt) (i r : Nat) (ids : List Bytes)
    (now : Int) (hp : n.peers[c]? = some p) (hg : p.helloReceived = true) :
    let eff := Gen.inventory_effects ids.length ids.isEmpty
    (handleMessage C Gen.params n c i r (.inventory ids) now).1 =
      eff.1.foldl (runInventoryEffect (fun x => n.mgr.coinstate.blocks.contains x) c ids) n ∧
    (handleMessage C Gen.params n c i r (.inventory ids) now).2.isSome = eff.2 := by
  intro eff
  have hl := inventory_limit_is_translated
  simp only [eff, handleMessage, hp, hg, Gen.inventory_effects, hl]
  by_cases hbig : ids.length > Gen.GET_BLOCKS_INVENTORY_SIZE
  · by_cases hpos : ids.length > 0 <;> simp [hbig, hpos]
  · by_cases hemp : ids.isEmpty = true
    · have : ids = [] := by simpa using hemp
      subst this
      simp [runInventoryEffect]
    · have hemp' : ids.isEmpty = false := by simpa using hemp
      by_cases hpos : ids.length > 0 <;> simp [hbig, hpos, hemp', runInventoryEffect]

/-- `check_inventory_messages` as translated: with every earlier batch already used and nothing of the new batch requested
yet, the ids requested are those of the new batch that are not stored, in order -/
theorem check_inventory_inner_eq (stored : Bytes → Bool) (enc : Bytes → Nat) (ids : List Bytes) :
    Gen.check_inventory.inner (ids.map fun i => (false, stored i, enc i)) = (ids.filter fun i => !stored i).map enc := by
  induction ids with
  | nil => rfl
  | cons a l ih =>
    simp only [List.map_cons, Gen.check_inventory.inner, List.filter_cons]
    cases h : stored a <;> simp [h, ih]

theorem check_inventory_as_model (stored : Bytes → Bool) (enc : Bytes → Nat) (ids : List Bytes)
    (olds : List (Bool × List (Bool × Bool × Nat))) (hused : ∀ o ∈ olds, o.1 = true) :
    Gen.check_inventory (olds ++ [(false, ids.map fun i => (false, stored i, enc i))]) =
      (ids.filter fun i => !stored i).map enc := by
  induction olds with
  | nil => simp [Gen.check_inventory, check_inventory_inner_eq]
  | cons o rest ih =>
    obtain ⟨u, items⟩ := o
    have hu : u = true := hused (u, items) (by simp)
    subst hu
    simp only [List.cons_append, Gen.check_inventory]
    simpa using ih (fun o ho => hused o (by simp [ho]))

/-- a batch that was used before is not looked at again, and an item requested before is not requested again -/
theorem check_inventory_skips_used (items : List (Bool × Bool × Nat)) (rest : List (Bool × List (Bool × Bool × Nat))) :
    Gen.check_inventory ((true, items) :: rest) = Gen.check_inventory rest := by
  simp [Gen.check_inventory]

/-! ### the get-data handler -/

theorem model_get_data_is_translated_effects (C : Crypto) (P : Params) (n : Node) (c : Nat) (p : PeerSt) (i r : Nat)
    (ty id : Bytes) (now : Int) (hp : n.peers[c]? = some p) (hg : p.helloReceived = true) :
    let eff := Gen.get_data_effects (decide (ty ≠ [0, 0])) (n.mgr.coinstate.blocks.get? id).isNone
    (handleMessage C P n c i r (.getData ty id) now).2.isSome = eff.2 ∧
    (handleMessage C P n c i r (.getData ty id) now).1 =
      (if eff.1 = ["send_block"] then
        match n.mgr.coinstate.blocks.get? id with
        | some b => n.send c (.block b i)
        | none => n
       else n) := by
  intro eff
  simp only [eff, handleMessage, hp, hg, Gen.get_data_effects]
  by_cases hty : ty ≠ [0, 0]
  · simp [hty]
  · have hty' : ty = [0, 0] := by simpa using hty
    subst hty'
    cases hb : n.mgr.coinstate.blocks.get? id <;> simp [hb]

end GenTie

import Model.Fetch
import Gen.DispatchEffects
import Gen.DataDispatchEffects
import Gen.InventoryEffects
import Gen.GetDataEffects
import Gen.CheckInventory

/-!
GenTie.DispatchRule — `ConnectedRemotePeer.handle_message_received` and the handlers it dispatches to, translated from the
current source, are the model's `handleMessage`:

* the dispatcher: a greeting is handled whether or not one was received before; anything else from a connection that has not
  greeted raises ("First message must be Hello") and nothing changes; otherwise the message goes to the handler of its class;
* `handle_data_message_received`: blocks and transactions go to their handlers, any other payload type raises;
* `handle_inventory_message_received`: over-limit raises; empty notes the time and clears the waiting flag; otherwise the
  batch is recorded, the data of every listed block that is not stored is requested (`check_inventory_messages`, translated
  as its two nested scans), and the next batch is asked for;
* `handle_get_data_message_received`: a non-block type raises, an unknown id is ignored, a stored block is sent.
-/

set_option linter.unusedSimpArgs false
set_option linter.unusedVariables false

namespace GenTie
open Model

def kindOf : InMsg → Nat
  | .hello _ _ => 0
  | .getBlocks _ => 1
  | .inventory _ => 2
  | .getData _ _ => 3
  | .dataBlock _ => 4
  | .dataTx _ => 4
  | .dataHeader => 4
  | .getPeers => 5
  | .peers => 6

def tokenOf : InMsg → String
  | .hello _ _ => "hello"
  | .getBlocks _ => "get_blocks"
  | .inventory _ => "inventory"
  | .getData _ _ => "get_data"
  | .dataBlock _ => "data"
  | .dataTx _ => "data"
  | .dataHeader => "data"
  | .getPeers => "get_peers"
  | .peers => "peers"

/-- every decoded message goes to the handler of its class, except that a connection that has not greeted may only greet -/
theorem dispatch_routes (m : InMsg) (helloReceived : Bool) :
    Gen.dispatch_effects (kindOf m) helloReceived =
      if kindOf m = 0 ∨ helloReceived = true then ([tokenOf m], false) else ([], true) := by
  cases m <;> cases helloReceived <;> first | rfl | (simp [Gen.dispatch_effects, kindOf, tokenOf]; done) | decide

/-! ### which exceptions escape the handlers

To state the dispatcher rule as an equivalence one has to know that no *handler* ever raises the dispatcher's own exception:
every exception a handler of the model lets escape is a `KeyError`, a validation / range error, or one of the
`NotImplementedError`s — never `Exception("First message must be Hello")`. -/

/-- the exception of the dispatcher -/
def firstMustBeHello : Err := .other "First message must be Hello"

/-- `x`, if it raises, raises something else than the dispatcher's exception -/
def Foreign {α : Type} (x : Except Err α) : Prop := ∀ e, x = .error e → e ≠ firstMustBeHello

namespace Foreign

theorem ok {α : Type} (a : α) : Foreign (.ok a : Except Err α) := by
  intro e h; cases h

theorem pure {α : Type} (a : α) : Foreign (Pure.pure a : Except Err α) := ok a

theorem err {α : Type} {e : Err} (h : e ≠ firstMustBeHello) : Foreign (.error e : Except Err α) := by
  intro e' h'; cases h'; exact h

theorem key {α : Type} (s : String) : Foreign (.error (.key s) : Except Err α) :=
  err (by simp [firstMustBeHello])

theorem throwKey {α : Type} (s : String) : Foreign (throw (.key s) : Except Err α) := key s

theorem verr {α : Type} (s : String) : Foreign (Model.verr s : Except Err α) :=
  err (by simp [firstMustBeHello])

theorem require (c : Bool) (s : String) : Foreign (Model.require c s) := by
  unfold Model.require; split
  · exact ok _
  · exact err (by simp [firstMustBeHello])

theorem requireRange (c : Bool) : Foreign (Model.requireRange c) := by
  unfold Model.requireRange; split
  · exact ok _
  · exact err (by simp [firstMustBeHello])

theorem bind {α β : Type} {x : Except Err α} {f : α → Except Err β} (hx : Foreign x) (hf : ∀ a, Foreign (f a)) :
    Foreign (x >>= f) := by
  intro e h
  cases x with
  | error e' =>
    have : e' = e := by simpa [Bind.bind, Except.bind] using h
    subst this; exact hx _ rfl
  | ok a => exact hf a e (by simpa [Bind.bind, Except.bind] using h)

theorem mapM {α β : Type} (f : α → Except Err β) (hf : ∀ a, Foreign (f a)) (l : List α) : Foreign (l.mapM f) := by
  induction l with
  | nil => rw [List.mapM_nil]; exact pure _
  | cons a rest ih =>
    rw [List.mapM_cons]
    exact bind (hf a) fun _ => bind ih fun _ => pure _

end Foreign

/-- one step through a `do` block of the model -/
macro "foreign_step" : tactic => `(tactic| first
  | exact Foreign.pure _ | exact Foreign.ok _ | exact Foreign.throwKey _ | exact Foreign.key _ | exact Foreign.verr _
  | exact Foreign.require _ _ | exact Foreign.requireRange _
  | assumption
  | (refine Foreign.bind ?_ (fun _ => ?_))
  | split)

theorem removeInputs_foreign (u : Utxo) (l : List Input) : Foreign (removeInputs u l) := by
  induction l generalizing u with
  | nil => exact Foreign.ok _
  | cons i rest ih =>
    simp only [removeInputs]
    split
    · exact ih _
    · exact Foreign.key _

theorem utoApplyTx_foreign (C : Crypto) (u : Utxo) (t : CTx) (cb : Bool) : Foreign (utoApplyTx C u t cb) := by
  unfold utoApplyTx
  have h := removeInputs_foreign u t.tx.inputs
  dsimp only
  repeat' foreign_step

theorem utoApplyTxs_foreign (C : Crypto) (u : Utxo) (l : List CTx) : Foreign (utoApplyTxs C u l) := by
  induction l generalizing u with
  | nil => exact Foreign.ok _
  | cons t rest ih =>
    simp only [utoApplyTxs]
    exact Foreign.bind (utoApplyTx_foreign C u t false) fun _ => ih _

theorem utoApplyBlock_foreign (C : Crypto) (u : Utxo) (b : Block) : Foreign (utoApplyBlock C u b) := by
  unfold utoApplyBlock
  split
  · exact Foreign.key _
  · exact Foreign.bind (utoApplyTx_foreign C u _ true) fun _ => utoApplyTxs_foreign C _ _

/-- `add_block_no_validation` raises `KeyError`s only -/
theorem addBlockNoValidation_foreign (C : Crypto) (cs : CoinState) (b : Block) : Foreign (addBlockNoValidation C cs b) := by
  unfold addBlockNoValidation
  dsimp only
  repeat' first | exact utoApplyBlock_foreign C _ b | foreign_step

theorem validateTxByItself_foreign (P : Params) (t : CTx) : Foreign (validateTxByItself P t) := by
  unfold validateTxByItself
  exact Foreign.bind (Foreign.require _ _) fun _ => Foreign.bind (Foreign.require _ _) fun _ =>
    Foreign.bind (Foreign.require _ _) fun _ => Foreign.bind (Foreign.requireRange _) fun _ =>
    Foreign.bind (Foreign.requireRange _) fun _ => Foreign.bind (Foreign.require _ _) fun _ =>
    Foreign.bind (Foreign.require _ _) fun _ => Foreign.require _ _

theorem validateSignature_foreign (C : Crypto) (i : Input) (o : Output) (t : Tx) : Foreign (validateSignature C i o t) := by
  unfold validateSignature
  split
  · split
    · exact Foreign.ok _
    · exact Foreign.verr _
  · exact Foreign.err (by simp [firstMustBeHello])

theorem validateInputs_foreign (C : Crypto) (u : Utxo) (t : Tx) (l : List Input) : Foreign (validateInputs C u t l) := by
  induction l with
  | nil => exact Foreign.ok _
  | cons i rest ih =>
    simp only [validateInputs]
    split
    · exact Foreign.verr _
    · exact Foreign.bind (validateSignature_foreign C _ _ _) fun _ => Foreign.bind ih fun _ => Foreign.pure _

theorem validateTxInState_foreign (C : Crypto) (u : Utxo) (t : CTx) : Foreign (validateTxInState C u t) := by
  unfold validateTxInState
  exact Foreign.bind (validateInputs_foreign C u _ _) fun _ => Foreign.require _ _

theorem validateTxAtHead_foreign (C : Crypto) (cs : CoinState) (t : CTx) : Foreign (validateTxAtHead C cs t) := by
  unfold validateTxAtHead
  split
  · exact Foreign.key _
  · exact validateTxInState_foreign C _ _

theorem addTxToPool_foreign (C : Crypto) (P : Params) (m : ChainMgr) (t : CTx) : Foreign (addTxToPool C P m t) := by
  unfold addTxToPool
  have hr : Foreign (do
      validateTxByItself P t
      validateTxAtHead C m.coinstate t
      Model.require (decide (allRefs (m.pool ++ [t])).Nodup) "Duplicate output_reference." : Except Err Unit) :=
    Foreign.bind (validateTxByItself_foreign P t) fun _ => Foreign.bind (validateTxAtHead_foreign C _ t) fun _ =>
      Foreign.require _ _
  simp only
  split
  · exact Foreign.ok _
  · exact Foreign.ok _
  · rename_i e _ he; exact Foreign.err (hr e he)

/-- `handle_get_blocks_message_received` raises `KeyError`s only -/
theorem inventoryReply_foreign (C : Crypto) (P : Params) (cs : CoinState) (loc : List Bytes) :
    Foreign (inventoryReply C P cs loc) := by
  unfold inventoryReply
  split
  · split
    · exact Foreign.ok _
    · exact Foreign.ok _
    · apply Foreign.mapM
      intro h
      split
      · exact Foreign.ok _
      · exact Foreign.key _
  · exact Foreign.key _

theorem handleTxReceived_foreign (C : Crypto) (P : Params) (n : Node) (t : CTx) (e : Err)
    (h : (handleTxReceived C P n t).2 = some e) : e ≠ firstMustBeHello := by
  unfold handleTxReceived at h
  split at h
  · cases h
  · split at h
    · next e' he' => cases h; exact addTxToPool_foreign C P n.mgr t e he'
    · cases h
    · cases h

theorem handleBlockReceived_foreign (C : Crypto) (P : Params) (n : Node) (c r : Nat) (b : Block) (now : Int) (e : Err)
    (h : (handleBlockReceived C P n c r b now).2 = some e) : e ≠ firstMustBeHello := by
  unfold handleBlockReceived at h
  simp only at h
  cases hadd : addBlockNoValidation C n.mgr.coinstate b with
  | error e' =>
    simp only [hadd] at h
    repeat' split at h
    all_goals first | (cases h; done) | (cases h; exact addBlockNoValidation_foreign C _ b _ hadd)
  | ok changed =>
    simp only [hadd] at h
    repeat' split at h
    all_goals first | (cases h; done) | (cases h; simp [firstMustBeHello])

/-- the only place where the model raises the dispatcher's exception is the dispatcher: whatever the node, the connection and
the message, `handleMessage` returns that exception **iff** the connection exists, has not greeted, and the message is not a
greeting -/
theorem model_raises_first_must_be_hello_iff (C : Crypto) (P : Params) (n : Node) (c : Nat) (i r : Nat) (m : InMsg)
    (now : Int) :
    (handleMessage C P n c i r m now).2 = some (.other "First message must be Hello") ↔
      ∃ p, n.peers[c]? = some p ∧ kindOf m ≠ 0 ∧ p.helloReceived = false := by
  constructor
  · intro h
    cases hp : n.peers[c]? with
    | none => simp [handleMessage, hp] at h
    | some p =>
      refine ⟨p, rfl, ?_⟩
      cases hr : p.helloReceived with
      | false =>
        cases m with
        | hello nonce port => simp [handleMessage, hp] at h; split at h <;> cases h
        | _ => exact ⟨by simp [kindOf], rfl⟩
      | true =>
        exfalso
        cases m with
        | hello nonce port => simp [handleMessage, hp] at h; split at h <;> cases h
        | getBlocks loc =>
          simp only [handleMessage, hp, hr, Bool.not_true, Bool.false_eq_true, ↓reduceIte] at h
          cases hi : inventoryReply C P n.mgr.coinstate loc with
          | ok ids => simp [hi] at h
          | error e =>
            simp [hi] at h
            exact inventoryReply_foreign C P _ loc e hi h
        | inventory ids =>
          simp only [handleMessage, hp, hr, Bool.not_true, Bool.false_eq_true, ↓reduceIte] at h
          repeat' split at h
          all_goals simp at h
        | getData ty id =>
          simp only [handleMessage, hp, hr, Bool.not_true, Bool.false_eq_true, ↓reduceIte] at h
          repeat' split at h
          all_goals simp at h
        | dataBlock b =>
          simp only [handleMessage, hp, hr, Bool.not_true, Bool.false_eq_true, ↓reduceIte] at h
          exact handleBlockReceived_foreign C P n c r b now _ h rfl
        | dataTx t =>
          simp only [handleMessage, hp, hr, Bool.not_true, Bool.false_eq_true, ↓reduceIte] at h
          exact handleTxReceived_foreign C P n t _ h rfl
        | dataHeader => simp [handleMessage, hp, hr] at h
        | getPeers => simp [handleMessage, hp, hr] at h
        | peers => simp [handleMessage, hp, hr] at h
  · rintro ⟨p, hp, hk, hr⟩
    cases m <;> first | exact absurd rfl hk | simp [handleMessage, hp, hr]

/-- the translated dispatcher raises exactly when the message is not a greeting and none was received before -/
theorem dispatch_raises_iff (m : InMsg) (helloReceived : Bool) :
    (Gen.dispatch_effects (kindOf m) helloReceived).2 = true ↔ (kindOf m ≠ 0 ∧ helloReceived = false) := by
  rw [dispatch_routes]
  cases m <;> cases helloReceived <;> simp [kindOf]

/-- the model's `handleMessage` and the translated dispatcher agree on when "First message must be Hello" is raised, in both
directions: for a connection `c` of the node (`hp`), the translated `handle_message_received` raises (second component of
`dispatch_effects`) **if and only if** the model returns the node unchanged together with that exception.

Left to right: the model refuses and nothing changes. Right to left: the model never produces this result in any other way —
a greeting never raises, and no handler (`get_blocks`, `inventory`, `get_data`, `data`, `get_peers`, `peers`) lets an exception
with this message escape (`model_raises_first_must_be_hello_iff`; the handlers raise `KeyError`s, validation / range errors and
`NotImplementedError`s only). So on a greeted connection, or for a greeting, the model's result is never this pair. -/
theorem model_dispatch_is_translated (C : Crypto) (P : Params) (n : Node) (c : Nat) (p : PeerSt) (i r : Nat) (m : InMsg)
    (now : Int) (hp : n.peers[c]? = some p) :
    ((Gen.dispatch_effects (kindOf m) p.helloReceived).2 = true ↔
      handleMessage C P n c i r m now = (n, some (.other "First message must be Hello"))) := by
  rw [dispatch_raises_iff]
  constructor
  · rintro ⟨hk, hr⟩
    cases m <;> first | exact absurd rfl hk | simp [handleMessage, hp, hr]
  · intro h
    have h2 : (handleMessage C P n c i r m now).2 = some (.other "First message must be Hello") := by rw [h]
    obtain ⟨p', hp', hk, hr⟩ := (model_raises_first_must_be_hello_iff C P n c i r m now).1 h2
    rw [hp] at hp'
    cases hp'
    exact ⟨hk, hr⟩

/-- when the translated dispatcher does not raise, an exception escaping the model is the one of the handler the message
was routed to, never the dispatcher's -/
theorem model_dispatch_not_raised (C : Crypto) (P : Params) (n : Node) (c : Nat) (p : PeerSt) (i r : Nat) (m : InMsg)
    (now : Int) (hp : n.peers[c]? = some p) (h : (Gen.dispatch_effects (kindOf m) p.helloReceived).2 = false) :
    (handleMessage C P n c i r m now).2 ≠ some (.other "First message must be Hello") := by
  intro h2
  obtain ⟨p', hp', hk, hr⟩ := (model_raises_first_must_be_hello_iff C P n c i r m now).1 h2
  rw [hp] at hp'
  cases hp'
  rw [(dispatch_raises_iff m p.helloReceived).2 ⟨hk, hr⟩] at h
  cases h

/-- and then (a greeted connection) the model's result is the result of the handler the message was routed to: for the two
handlers that live outside `handleMessage` -/
theorem model_dispatch_routes_data (C : Crypto) (P : Params) (n : Node) (c : Nat) (p : PeerSt) (i r : Nat) (now : Int)
    (hp : n.peers[c]? = some p) (hg : p.helloReceived = true) :
    (∀ b, handleMessage C P n c i r (.dataBlock b) now = handleBlockReceived C P n c r b now) ∧
    (∀ t, handleMessage C P n c i r (.dataTx t) now = handleTxReceived C P n t) := by
  refine ⟨fun b => ?_, fun t => ?_⟩ <;> simp [handleMessage, hp, hg]

/-- payload dispatch: a block, a transaction, anything else raises -/
theorem data_dispatch_routes :
    Gen.data_dispatch_effects true false = (["block"], false) ∧
    Gen.data_dispatch_effects false true = (["transaction"], false) ∧
    Gen.data_dispatch_effects false false = ([], true) := by
  refine ⟨?_, ?_, ?_⟩ <;> first | rfl | decide

theorem model_data_header_raises (C : Crypto) (P : Params) (n : Node) (c : Nat) (p : PeerSt) (i r : Nat) (now : Int)
    (hp : n.peers[c]? = some p) (hg : p.helloReceived = true) :
    handleMessage C P n c i r .dataHeader now = (n, some (.other "NotImplementedError")) ∧
    (Gen.data_dispatch_effects false false).2 = true := by
  refine ⟨by simp [handleMessage, hp, hg], ?_⟩
  first | rfl | decide

/-! ### the inventory handler -/

def runInventoryEffect (blocksHas : Bytes → Bool) (c : Nat) (ids : List Bytes) : Node → String → Node
  | n, "note_empty" => n                        -- the scheduler's field (`Model.noteEmptyInventory`)
  | n, "clear_waiting" => n.updatePeer c fun p => { p with waitingForInventory := false }
  | n, "append_state" => n.updatePeer c fun p => { p with pendingInventory := p.pendingInventory ++ ids }
  | n, "request_missing" => (ids.filter fun i => !blocksHas i).foldl (fun nn i => nn.send c (.getData i)) n
  | n, "send_followup" => n.send c (.getBlocks [ids.getLast!])
  | n, _ => n

theorem inventory_limit_is_translated : Gen.params.inventorySize = Gen.GET_BLOCKS_INVENTORY_SIZE := by
  first | rfl | decide

/-- the refinement for a greeted connection -/
theorem model_inventory_is_translated_effects (C : Crypto) (n : Node) (c : Nat) (p : PeerSt) (i r : Nat) (ids : List Bytes)
    (now : Int) (hp : n.peers[c]? = some p) (hg : p.helloReceived = true) :
    let eff := Gen.inventory_effects ids.length ids.isEmpty
    (handleMessage C Gen.params n c i r (.inventory ids) now).1 =
      eff.1.foldl (runInventoryEffect (fun x => n.mgr.coinstate.blocks.contains x) c ids) n ∧
    (handleMessage C Gen.params n c i r (.inventory ids) now).2.isSome = eff.2 := by
  intro eff
  have hl := inventory_limit_is_translated
  simp only [eff, handleMessage, hp, hg, Gen.inventory_effects, hl]
  by_cases hbig : ids.length > Gen.GET_BLOCKS_INVENTORY_SIZE
  · by_cases hpos : ids.length > 0 <;> simp [hbig, hpos]
  · by_cases hemp : ids.isEmpty = true
    · have : ids = [] := by simpa using hemp
      subst this
      simp [runInventoryEffect]
    · have hemp' : ids.isEmpty = false := by simpa using hemp
      by_cases hpos : ids.length > 0 <;> simp [hbig, hpos, hemp', runInventoryEffect]

/-- `check_inventory_messages` as translated: with every earlier batch already used and nothing of the new batch requested
yet, the ids requested are those of the new batch that are not stored, in order -/
theorem check_inventory_inner_eq (stored : Bytes → Bool) (enc : Bytes → Nat) (ids : List Bytes) :
    Gen.check_inventory.inner (ids.map fun i => (false, stored i, enc i)) = (ids.filter fun i => !stored i).map enc := by
  induction ids with
  | nil => rfl
  | cons a l ih =>
    simp only [List.map_cons, Gen.check_inventory.inner, List.filter_cons]
    cases h : stored a <;> simp [h, ih]

theorem check_inventory_as_model (stored : Bytes → Bool) (enc : Bytes → Nat) (ids : List Bytes)
    (olds : List (Bool × List (Bool × Bool × Nat))) (hused : ∀ o ∈ olds, o.1 = true) :
    Gen.check_inventory (olds ++ [(false, ids.map fun i => (false, stored i, enc i))]) =
      (ids.filter fun i => !stored i).map enc := by
  induction olds with
  | nil => simp [Gen.check_inventory, check_inventory_inner_eq]
  | cons o rest ih =>
    obtain ⟨u, items⟩ := o
    have hu : u = true := hused (u, items) (by simp)
    subst hu
    simp only [List.cons_append, Gen.check_inventory]
    simpa using ih (fun o ho => hused o (by simp [ho]))

/-- a batch that was used before is not looked at again, and an item requested before is not requested again -/
theorem check_inventory_skips_used (items : List (Bool × Bool × Nat)) (rest : List (Bool × List (Bool × Bool × Nat))) :
    Gen.check_inventory ((true, items) :: rest) = Gen.check_inventory rest := by
  simp [Gen.check_inventory]

/-! ### the get-data handler -/

theorem model_get_data_is_translated_effects (C : Crypto) (P : Params) (n : Node) (c : Nat) (p : PeerSt) (i r : Nat)
    (ty id : Bytes) (now : Int) (hp : n.peers[c]? = some p) (hg : p.helloReceived = true) :
    let eff := Gen.get_data_effects (decide (ty ≠ [0, 0])) (n.mgr.coinstate.blocks.get? id).isNone
    (handleMessage C P n c i r (.getData ty id) now).2.isSome = eff.2 ∧
    (handleMessage C P n c i r (.getData ty id) now).1 =
      (if eff.1 = ["send_block"] then
        match n.mgr.coinstate.blocks.get? id with
        | some b => n.send c (.block b i)
        | none => n
       else n) := by
  intro eff
  simp only [eff, handleMessage, hp, hg, Gen.get_data_effects]
  by_cases hty : ty ≠ [0, 0]
  · simp [hty]
  · have hty' : ty = [0, 0] := by simpa using hty
    subst hty'
    cases hb : n.mgr.coinstate.blocks.get? id <;> simp [hb]

end GenTie

import Model.Wallet
import Gen.HandOutEffects
import Gen.RestoreEffects

/-!
GenTie.WalletKeysRule — `Wallet.get_annotated_public_key` / `restore_annotated_public_key`, translated from the current source as
effect trees, are the model's `Wallet.handOut` / `Wallet.restore`: while unused keys remain the **last** one is popped,
annotated and returned (a key that was popped is no longer unused); with none left a known key is re-used and the wallet is
unchanged; a restore removes the annotation (raising for a key that carries none) and appends the key to the unused ones.
-/

set_option linter.unusedSimpArgs false
set_option linter.unusedVariables false

namespace GenTie
open Model

/-- state of the hand-out: the wallet and the popped key -/
def runHandOutEffect (annotation : String) (st : Wallet × Option Bytes) : String → Wallet × Option Bytes
  | "pop_last_unused" => ({ st.1 with unused := st.1.unused.dropLast }, st.1.unused.getLast?)
  | "annotate_popped" =>
      (match st.2 with
        | some pk => ({ st.1 with annotations := (st.1.annotations.filter (·.1 ≠ pk)) ++ [(pk, annotation)] }, st.2)
        | none => st)
  | _ => st

theorem model_hand_out_is_translated_effects (w : Wallet) (annotation : String) (choice : Nat) :
    let eff := Gen.hand_out_effects (w.unused.length == 0)
    eff.2 = false ∧
    (match w.handOut annotation choice with
      | some (w', pk) =>
          w' = (eff.1.foldl (runHandOutEffect annotation) (w, none)).1 ∧
          (("return_popped" ∈ eff.1 ∧ (eff.1.foldl (runHandOutEffect annotation) (w, none)).2 = some pk) ∨
           ("return_random_known_key" ∈ eff.1 ∧ pk ∈ w.keys))
      | none => "return_random_known_key" ∈ eff.1 ∧ w.keys = []) := by
  intro eff
  simp only [eff, Gen.hand_out_effects]
  unfold Wallet.handOut
  cases hl : w.unused.getLast? with
  | none =>
    have he : w.unused = [] := by
      cases hu : w.unused with
      | nil => rfl
      | cons a l => rw [hu] at hl; simp [List.getLast?_cons] at hl
    simp only [he, List.length_nil, BEq.rfl, ↓reduceIte]
    cases hk : w.keys[choice % w.keys.length]? with
    | none =>
      simp only [List.mem_append, List.mem_cons, List.not_mem_nil, or_false, or_true, true_and]
      by_cases hne : w.keys = []
      · simp [hne, runHandOutEffect]
      · exfalso
        have hpos : 0 < w.keys.length := List.length_pos_iff.mpr hne
        have : choice % w.keys.length < w.keys.length := Nat.mod_lt _ hpos
        simp [List.getElem?_eq_none_iff] at hk
        omega
    | some pk =>
      simp [runHandOutEffect]
      exact List.mem_of_getElem? hk
  | some pk =>
    have hne : w.unused ≠ [] := by intro h; rw [h] at hl; simp at hl
    have hlen : (w.unused.length == 0) = false := by
      cases hu : w.unused with
      | nil => exact absurd hu hne
      | cons a l => simp
    simp [hlen, runHandOutEffect, hl]

def runRestoreEffect (pk : Bytes) (w : Wallet) : String → Wallet
  | "remove_annotation" => { w with annotations := w.annotations.filter (·.1 ≠ pk) }
  | "append_unused" => { w with unused := w.unused ++ [pk] }
  | _ => w

theorem model_restore_is_translated_effects (w : Wallet) (pk : Bytes) :
    let eff := Gen.restore_effects (w.annotations.any (·.1 = pk))
    (match w.restore pk with
      | some w' => eff.2 = false ∧ w' = eff.1.foldl (runRestoreEffect pk) w
      | none => eff.2 = true) := by
  intro eff
  simp only [eff, Gen.restore_effects]
  unfold Wallet.restore
  by_cases h : w.annotations.any (·.1 = pk) = true
  · simp [h, runRestoreEffect]
  · have h' : w.annotations.any (·.1 = pk) = false := Bool.eq_false_iff.mpr h
    simp [h']

end GenTie

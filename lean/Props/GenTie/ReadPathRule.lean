import Gen.ReceiveDataEffects

/-!
GenTie.ReadPathRule — `ConnectedRemotePeer.handle_receive_data`, translated from the current source: every read, whatever its
bytes and whatever the state of the connection, is handed to the connection's `MessageReceiver` (the model's `Framing.feed`), and
nothing else happens. Fragmentation-independence (C11) is a theorem about `feed`; this is what makes it a statement about the
node's read path.
-/

namespace GenTie

theorem every_read_goes_to_the_receiver : Gen.receive_data_effects = (["receive"], false) := by
  first | rfl | decide

end GenTie

import Gen.GetBlockSubsidy
import Gen.ValidateSashimiRange

set_option linter.unusedSimpArgs false

namespace GenTie

/-- the code's `get_block_subsidy`, as translated now, is the model's `subsidy` -/
theorem get_block_subsidy_eq (h : Nat) : Gen.get_block_subsidy h = Model.subsidy Gen.params h := by
  first
  | rfl
  | (simp [Gen.get_block_subsidy, Model.subsidy, Gen.params, Nat.shiftRight_eq_div_pow]; done)
  | (unfold Gen.get_block_subsidy Model.subsidy; simp only [Gen.params]; split <;> split <;> simp_all <;> omega)
  | grind [Gen.get_block_subsidy, Model.subsidy, Gen.params]

/-- the code's `validate_sashimi_range` accepts exactly `0 < v ≤ MAX_SASHIMI` -/
theorem validate_sashimi_range_eq (v : Nat) :
    Gen.validate_sashimi_range v = Model.sashimiInRange Gen.params v := by
  first
  | rfl
  | (simp [Gen.validate_sashimi_range, Model.sashimiInRange, Gen.params]; done)
  | (unfold Gen.validate_sashimi_range Model.sashimiInRange; simp only [Gen.params]; split <;> simp_all <;> omega)
  | grind [Gen.validate_sashimi_range, Model.sashimiInRange, Gen.params]

end GenTie

import Model.Types
import Proofs.Types
import Gen.MsgLayouts

/-!
GenTie.MsgLayout — the wire messages of networking/messages.py, regenerated: the two-byte type indicators, the dispatch of
`Message.stream_deserialize`, the `DATATYPES` table, and per class the decoder (as a codec built from the model's combinators),
the encoder (as an item list) and the constructor call.

* the model's message codecs **are** the regenerated decoders (up to the record constructors), `Msg.dec` is the regenerated
  dispatch over them, `Msg.enc` writes the type indicator the dispatcher tests for and then what the class's decoder reads —
  so C07's `message_roundtrip` / `frame_roundtrip` are theorems about the layouts the code has now;
* every encoder writes, field by field, what its decoder reads; every decoder hands the fields to `__init__` under the
  parameter of the same name.

Trusted for this tie: `IPv6Address(b).packed == b` for 16 bytes (standard library).
-/

namespace GenTie.Msg
open Model Model.Codec Gen.MsgLayout

/-- a written item matches a read item -/
def itemAgrees (w r : String × String × String) : Bool :=
  ((w.2.2 == r.2.2) &&
    (((w.1 == r.1) && ((w.2.1 == r.2.1) || (w.2.1 == ""))) ||
     ((w.1 == "raw") && (r.1 == "fixed")) ||
     ((w.1 == "listraw") && (r.1 == "listfixed")) ||
     ((w.1 == "nested") && (r.1 == "lookup")))) ||
  -- bytes the decoder ignores: a constant byte or zeros of that many bytes
  ((r.1 == "ignored") && (r.2.2 == "") && (w.2.2 == "") &&
    (((w.1 == "const") && (r.2.1 == "1")) || ((w.1 == "zeros") && (w.2.1 == r.2.1))))

def agree (w r : List (String × String × String)) : Bool :=
  (w.length == r.length) && (List.zipWith itemAgrees w r).all id

def fieldsOf (items : List (String × String × String)) : List String :=
  (items.map (·.2.2)).filter (· != "")

/-- the type indicators and the two tables -/
theorem dispatch_tables :
    Message.dispatch = [([0, 0], "HelloMessage"), ([0, 1], "GetBlocksMessage"), ([0, 2], "InventoryMessage"),
      ([0, 3], "GetDataMessage"), ([0, 4], "DataMessage"), ([0, 5], "GetPeersMessage"), ([0, 6], "PeersMessage")] ∧
    DATATYPES = [([0, 0], "Block"), ([0, 1], "BlockHeader"), ([0, 2], "Transaction")] := by decide

/-- no two message classes (and no two data classes) share a type indicator -/
theorem type_indicators_distinct :
    (Message.dispatch.map (·.1)).Nodup ∧ (DATATYPES.map (·.1)).Nodup := by decide

/-- every message's encoder writes the type indicator its dispatcher entry tests for -/
theorem encoders_write_their_indicator :
    HelloMessage.writerItems.head? = some ("tag", "0 0", "") ∧
    GetBlocksMessage.writerItems.head? = some ("tag", "0 1", "") ∧
    InventoryMessage.writerItems.head? = some ("tag", "0 2", "") ∧
    GetDataMessage.writerItems.head? = some ("tag", "0 3", "") ∧
    DataMessage.writerItems.head? = some ("tag", "0 4", "") ∧
    GetPeersMessage.writerItems.head? = some ("tag", "0 5", "") ∧
    PeersMessage.writerItems.head? = some ("tag", "0 6", "") := by decide

theorem encoders_write_what_decoders_read :
    agree MessageHeader.writerItems MessageHeader.readerItems = true ∧
    agree SupportedVersion.writerItems SupportedVersion.readerItems = true ∧
    agree HelloMessage.writerItems.tail HelloMessage.readerItems = true ∧
    agree GetBlocksMessage.writerItems.tail GetBlocksMessage.readerItems = true ∧
    agree InventoryItem.writerItems InventoryItem.readerItems = true ∧
    agree InventoryMessage.writerItems.tail InventoryMessage.readerItems = true ∧
    agree GetDataMessage.writerItems.tail GetDataMessage.readerItems = true ∧
    agree DataMessage.writerItems.tail DataMessage.readerItems = true ∧
    agree GetPeersMessage.writerItems.tail GetPeersMessage.readerItems = true ∧
    agree Peer.writerItems Peer.readerItems = true ∧
    agree PeersMessage.writerItems.tail PeersMessage.readerItems = true := by decide

/-- every decoder passes each field read to the constructor parameter of the same name, and every parameter is a field read -/
theorem decoders_construct_by_name :
    MessageHeader.ctor = MessageHeader.initParams ∧ MessageHeader.ctor = fieldsOf MessageHeader.readerItems ∧
    SupportedVersion.ctor = SupportedVersion.initParams ∧ SupportedVersion.ctor = fieldsOf SupportedVersion.readerItems ∧
    HelloMessage.ctor = HelloMessage.initParams ∧ HelloMessage.ctor.Perm (fieldsOf HelloMessage.readerItems) ∧
    GetBlocksMessage.ctor = GetBlocksMessage.initParams ∧ GetBlocksMessage.ctor = fieldsOf GetBlocksMessage.readerItems ∧
    InventoryItem.ctor = InventoryItem.initParams ∧ InventoryItem.ctor = fieldsOf InventoryItem.readerItems ∧
    InventoryMessage.ctor = InventoryMessage.initParams ∧ InventoryMessage.ctor = fieldsOf InventoryMessage.readerItems ∧
    GetDataMessage.ctor = GetDataMessage.initParams ∧ GetDataMessage.ctor = fieldsOf GetDataMessage.readerItems ∧
    DataMessage.ctor = DataMessage.initParams ∧ DataMessage.ctor = fieldsOf DataMessage.readerItems ∧
    GetPeersMessage.ctor = GetPeersMessage.initParams ∧ GetPeersMessage.ctor = fieldsOf GetPeersMessage.readerItems ∧
    Peer.ctor = Peer.initParams ∧ Peer.ctor = fieldsOf Peer.readerItems ∧
    PeersMessage.ctor = PeersMessage.initParams ∧ PeersMessage.ctor = fieldsOf PeersMessage.readerItems := by decide

/-- the model's codecs are the regenerated decoders -/
theorem model_msg_codecs_are_translated :
    MsgHeader.codec = iso (fun p => ⟨p.2.1, p.2.2.1, p.2.2.2.1, p.2.2.2.2.1⟩)
      (fun h => ((), h.timestamp, h.id, h.inResponseTo, h.context, ())) MessageHeader.reader ∧
    Hello.codec = iso (fun p => ⟨p.2.1, p.2.2.1, p.2.2.2.1, p.2.2.2.2.1, p.2.2.2.2.2.1, p.2.2.2.2.2.2.1, p.2.2.2.2.2.2.2.1⟩)
      (fun h => ((), h.yourIp, h.yourPort, h.myIp, h.myPort, h.nonce, h.userAgent, h.versions, ()))
      (HelloMessage.reader SupportedVersion.reader) ∧
    InvItem.codec = iso (fun p => ⟨p.1, p.2⟩) (fun i => (i.dataType, i.hash)) InventoryItem.reader ∧
    PeerAddr.codec = iso (fun p => ⟨p.1, p.2.1, p.2.2⟩) (fun a => (a.lastSeen, a.ip, a.port)) Peer.reader ∧
    getBlocksCodec = iso (fun p => p.2) (fun x => ((), x)) GetBlocksMessage.reader ∧
    inventoryCodec = iso (fun p => p.2) (fun x => ((), x)) (InventoryMessage.reader InvItem.codec) ∧
    getDataCodec = iso (fun p => p.2) (fun x => ((), x)) GetDataMessage.reader ∧
    peersCodec = iso (fun p => p.2) (fun x => ((), x)) (PeersMessage.reader PeerAddr.codec) := by
  refine ⟨rfl, rfl, rfl, rfl, rfl, rfl, rfl, rfl⟩

/-- the payload of a data message: the two-byte data type selects the class whose (translated, `GenTie.Layout`) decoder runs;
an unknown type raises (`DATATYPES[data_type]`) -/
theorem data_item_dec_is_translated (bs : Bytes) :
    DataItem.dec bs =
      match (fixed 2).dec bs with
      | none => none
      | some (t, r) =>
        if t = [0, 0] then (BlockC.codec.dec r).map fun (x, r') => (.block x, r')
        else if t = [0, 1] then (Header.codec.dec r).map fun (x, r') => (.header x, r')
        else if t = [0, 2] then (Tx.codec.dec r).map fun (x, r') => (.tx x, r')
        else none := by
  unfold DataItem.dec
  match bs with
  | [] => rfl
  | [_] => rfl
  | a :: b :: r =>
    have h2 : (fixed 2).dec (a :: b :: r) = some ([a, b], r) := by simp [fixed]
    rw [h2]
    simp only [List.cons.injEq, and_true]

/-- `Message.stream_deserialize` of the model is the regenerated dispatch over the regenerated decoders -/
theorem msg_dec_is_translated (bs : Bytes) :
    Msg.dec bs =
      match (fixed 2).dec bs with
      | none => none
      | some (t, r) =>
        if t = [0, 0] then (Hello.codec.dec r).map fun (x, r') => (.hello x, r')
        else if t = [0, 1] then (GetBlocksMessage.reader.dec r).map fun (x, r') => (.getBlocks x.2.1 x.2.2, r')
        else if t = [0, 2] then ((InventoryMessage.reader InvItem.codec).dec r).map fun (x, r') => (.inventory x.2, r')
        else if t = [0, 3] then (GetDataMessage.reader.dec r).map fun (x, r') => (.getData x.2.1 x.2.2, r')
        else if t = [0, 4] then
          (match DataMessage.reader.dec r with
           | none => none
           | some (_, r₁) => (DataItem.dec r₁).map fun (x, r') => (.data x, r'))
        else if t = [0, 5] then (GetPeersMessage.reader.dec r).map fun (_, r') => (.getPeers, r')
        else if t = [0, 6] then ((PeersMessage.reader PeerAddr.codec).dec r).map fun (x, r') => (.peers x.2, r')
        else none := by
  unfold Msg.dec
  match bs with
  | [] => rfl
  | [_] => rfl
  | a :: b :: r =>
    have h2 : (fixed 2).dec (a :: b :: r) = some ([a, b], r) := by simp [fixed]
    rw [h2]
    by_cases ha : a = 0
    · subst ha
      simp only [ne_eq, not_true_eq_false, ↓reduceIte, List.cons.injEq, true_and, and_true]
      have iso_map : ∀ {α β γ : Type} (c : Codec α) (f : α → β) (g : β → α) (k : β × Bytes → γ) (r : Bytes),
          Option.map k ((iso f g c).dec r) = Option.map (fun x => k (f x.1, x.2)) (c.dec r) := by
        intro α β γ c f g k r
        simp only [Codec.iso]
        cases c.dec r <;> rfl
      simp only [getBlocksCodec, inventoryCodec, getDataCodec, peersCodec, iso_map]
      by_cases h0 : b = 0
      · simp only [h0, ↓reduceIte]
      by_cases h1 : b = 1
      · subst h1; simp only [h0, ↓reduceIte]; rfl
      by_cases h2' : b = 2
      · subst h2'; simp only [h0, h1, ↓reduceIte]; rfl
      by_cases h3 : b = 3
      · subst h3; simp only [h0, h1, h2', ↓reduceIte]; rfl
      by_cases h4 : b = 4
      · subst h4; simp only [h0, h1, h2', h3, ↓reduceIte]
        cases r with
        | nil => rfl
        | cons v r₁ => by_cases hv : v = 0 <;> simp [DataMessage.reader, Codec.const, hv]
      by_cases h5 : b = 5
      · subst h5; simp only [h0, h1, h2', h3, h4, ↓reduceIte]
        cases r with
        | nil => rfl
        | cons v r₁ => by_cases hv : v = 0 <;> simp [GetPeersMessage.reader, Codec.const, hv]
      by_cases h6 : b = 6
      · subst h6; simp only [h0, h1, h2', h3, h4, h5, ↓reduceIte]; rfl
      simp only [h0, h1, h2', h3, h4, h5, h6, ↓reduceIte]
    · have : ¬ ([a, b] = [0, 0]) ∧ ¬ ([a, b] = [0, 1]) ∧ ¬ ([a, b] = [0, 2]) ∧ ¬ ([a, b] = [0, 3]) ∧ ¬ ([a, b] = [0, 4]) ∧
          ¬ ([a, b] = [0, 5]) ∧ ¬ ([a, b] = [0, 6]) := by simp [ha]
      simp [ha]

/-- `stream_serialize` of the model: the class's type indicator, then what the regenerated decoder of the class reads -/
theorem msg_enc_is_translated (m : Msg) :
    m.enc =
      match m with
      | .hello h => [0, 0] ++ Hello.codec.enc h
      | .getBlocks s t => [0, 1] ++ GetBlocksMessage.reader.enc ((), s, t)
      | .inventory l => [0, 2] ++ (InventoryMessage.reader InvItem.codec).enc ((), l)
      | .getData t h => [0, 3] ++ GetDataMessage.reader.enc ((), t, h)
      | .data d => [0, 4] ++ DataMessage.reader.enc () ++ d.enc
      | .getPeers => [0, 5] ++ GetPeersMessage.reader.enc ()
      | .peers l => [0, 6] ++ (PeersMessage.reader PeerAddr.codec).enc ((), l) := by
  cases m <;> first | rfl | (simp [Msg.enc, getBlocksCodec, inventoryCodec, getDataCodec, peersCodec, GetBlocksMessage.reader, InventoryMessage.reader, GetDataMessage.reader, DataMessage.reader, GetPeersMessage.reader, PeersMessage.reader, Codec.iso, Codec.seq, Codec.const]; done)

/-- the type indicators in use are exactly `00 00 … 00 06` (messages) and `00 00 … 00 02` (data) -/
theorem indicators_in_use :
    Message.dispatch.map (·.1) = (List.range 7).map (fun k => [0, k]) ∧
    DATATYPES.map (·.1) = (List.range 3).map (fun k => [0, k]) := by decide

/-- C20: a message whose type indicator is none of those the dispatcher tests for is refused, whatever follows -/
theorem unknown_message_type_refused (a b : UInt8) (r : Bytes) (h : a ≠ 0 ∨ 6 < b) : Msg.dec (a :: b :: r) = none := by
  rw [msg_dec_is_translated]
  have h2 : (fixed 2).dec (a :: b :: r) = some ([a, b], r) := by simp [fixed]
  rw [h2]
  have : ∀ k : UInt8, k ≤ 6 → ¬ ([a, b] = [0, k]) := by
    intro k hk he
    simp only [List.cons.injEq, and_true] at he
    rcases h with h | h
    · exact h he.1
    · rw [he.2] at h; exact absurd hk (UInt8.not_le.mpr h)
  simp only [this 0 (by decide), this 1 (by decide), this 2 (by decide), this 3 (by decide), this 4 (by decide),
    this 5 (by decide), this 6 (by decide), ↓reduceIte]

/-- C20: a data message whose data type is not in `DATATYPES` is refused, whatever follows -/
theorem unknown_data_type_refused (a b : UInt8) (r : Bytes) (h : a ≠ 0 ∨ 2 < b) : DataItem.dec (a :: b :: r) = none := by
  rw [data_item_dec_is_translated]
  have h2 : (fixed 2).dec (a :: b :: r) = some ([a, b], r) := by simp [fixed]
  rw [h2]
  have : ∀ k : UInt8, k ≤ 2 → ¬ ([a, b] = [0, k]) := by
    intro k hk he
    simp only [List.cons.injEq, and_true] at he
    rcases h with h | h
    · exact h he.1
    · rw [he.2] at h; exact absurd hk (UInt8.not_le.mpr h)
  simp only [this 0 (by decide), this 1 (by decide), this 2 (by decide), ↓reduceIte]

/-- … and the whole frame is then undecodable -/
theorem unknown_type_frame_undecodable (hd : MsgHeader) (a b : UInt8) (r : Bytes) (hwf : hd.WF) (h : a ≠ 0 ∨ 6 < b) :
    decodeFrame (MsgHeader.codec.enc hd ++ a :: b :: r) = none := by
  unfold decodeFrame
  rw [MsgHeader.rt hd (a :: b :: r) hwf]
  simp only [unknown_message_type_refused a b r h]

end GenTie.Msg

import Model.PeerBook
import Proofs.Map
import Gen.PeerConnectedEffects
import Gen.PeerDisconnectedEffects
import Gen.NetStepDial
import Gen.WritePeersEffects

/-!
GenTie.PeerBookRule — `NetworkManager.handle_peer_connected` / `handle_peer_disconnected`, translated from the current source as
effect trees, are the model's `Book.peerConnected` / `Book.peerDisconnected`:

* connected: an existing connection under the same key is dropped first; then the new one is recorded, and the key is removed
  from the waiting map **whenever it is there at that moment** (in particular after the drop of a duplicate put it there);
* disconnected: the key leaves the connected map; an outgoing peer goes to the waiting map, its failure count incremented exactly
  when it never greeted; an incoming peer is forgotten.
-/

set_option linter.unusedSimpArgs false
set_option linter.unusedVariables false

namespace GenTie
open Model

theorem erase_of_not_contains {κ ν : Type} [DecidableEq κ] (m : Map κ ν) (k : κ) (h : m.contains k = false) :
    m.erase k = m := by
  induction m with
  | nil => rfl
  | cons e rest ih =>
    obtain ⟨k', v⟩ := e
    simp only [Map.contains, Map.get?] at h
    by_cases hk : k' = k
    · simp [hk] at h
    · simp only [hk, ↓reduceIte] at h
      have ih' := ih (by simpa [Map.contains] using h)
      simp only [Map.erase] at ih' ⊢
      rw [List.filter_cons]
      simp only [ne_eq, hk, not_false_eq_true, decide_true, ↓reduceIte]
      rw [ih']

def runConnectEffect (k : PeerKey) (p : ConnPeer) (b : Book) : String → Book
  | "drop_existing" => (match b.connected.get? k with | some old => b.disconnect k old.serial | none => b)
  | "record_connected" => { b with connected := b.connected.set k p }
  | "forget_waiting" => { b with disconnected := b.disconnected.erase k }
  | _ => b                                  -- sanity_check: raises iff the book is insane (`never_insane` in Props/C19)

/-- the refinement for a new connection; the atom `waiting` is read when the code reads it: after a duplicate was dropped -/
theorem model_peer_connected_is_translated_effects (b : Book) (k : PeerKey) (p : ConnPeer) :
    let b₁ := match b.connected.get? k with | some old => b.disconnect k old.serial | none => b
    let eff := Gen.peer_connected_effects (b.connected.contains k) (b₁.disconnected.contains k)
    Book.peerConnected b k p = eff.1.foldl (runConnectEffect k p) b ∧ eff.2 = false := by
  intro b₁ eff
  unfold Book.peerConnected
  simp only [eff, b₁, Gen.peer_connected_effects]
  cases hk : b.connected.get? k with
  | none =>
    have hc : b.connected.contains k = false := by simp [Map.contains, hk]
    simp only [hc, Bool.false_eq_true, ↓reduceIte]
    by_cases hw : b.disconnected.contains k = true
    · simp [hw, runConnectEffect]
    · have hw' : b.disconnected.contains k = false := by simpa using hw
      have he : b.disconnected.erase k = b.disconnected := erase_of_not_contains _ _ hw'
      simp [hw', runConnectEffect, he]
  | some old =>
    have hc : b.connected.contains k = true := by simp [Map.contains, hk]
    simp only [hc, ↓reduceIte]
    by_cases hw : (b.disconnect k old.serial).disconnected.contains k = true
    · simp [hw, runConnectEffect, hk]
    · have hw' : (b.disconnect k old.serial).disconnected.contains k = false := by simpa using hw
      have he : (b.disconnect k old.serial).disconnected.erase k = (b.disconnect k old.serial).disconnected :=
        erase_of_not_contains _ _ hw'
      simp [hw', runConnectEffect, hk, he]

def runDisconnectEffect (k : PeerKey) (p : ConnPeer) (st : Book × Nat) : String → Book × Nat
  | "forget_connected" => ({ st.1 with connected := st.1.connected.erase k }, st.2)
  | "count_failure" => (st.1, st.2 + 1)
  | "record_waiting" => ({ st.1 with disconnected := st.1.disconnected.set k ⟨p.lastAttempt, st.2⟩ }, st.2)
  | _ => st

/-- the refinement for a lost connection (the second component carries the peer object's failure count) -/
theorem model_peer_disconnected_is_translated_effects (b : Book) (k : PeerKey) (p : ConnPeer) :
    let eff := Gen.peer_disconnected_effects k.outgoing p.helloReceived
    Book.peerDisconnected b k p = (eff.1.foldl (runDisconnectEffect k p) (b, p.banScore)).1 ∧ eff.2 = false := by
  intro eff
  unfold Book.peerDisconnected
  simp only [eff, Gen.peer_disconnected_effects]
  cases k.outgoing <;> cases p.helloReceived <;> simp [runDisconnectEffect]

/-! ### the dial loop of `NetworkManager.step` -/

/-- the translated test of the loop body dials exactly for an outgoing peer that is not one of the node's own addresses and
whose back-off has passed -/
theorem net_step_dial_iff (outgoing is_mine time_ok : Bool) :
    Gen.net_step_dial outgoing is_mine time_ok =
      if outgoing && !is_mine && time_ok then ["set_last_attempt", "start_outgoing"] else [] := by
  cases outgoing <;> cases is_mine <;> cases time_ok <;> first | rfl | decide

/-- one iteration of the model's loop over the snapshot is the translated body: nothing for a peer that is not dialled;
otherwise the attempt time is recorded first and the connection started with the updated record -/
theorem model_step_peer_as_translated (P : Params) (now : Int) (b : Book) (k : PeerKey) (x d : DiscPeer)
    (rest : List (PeerKey × DiscPeer)) (hd : b.disconnected.get? k = some d) :
    Book.stepPeers P now b ((k, x) :: rest) =
      (if Gen.net_step_dial k.outgoing (b.myAddresses.contains (k.host, k.port))
            (isTimeToConnect P d.banScore d.lastAttempt now) = ["set_last_attempt", "start_outgoing"] then
        let d' : DiscPeer := { d with lastAttempt := some now }
        Book.stepPeers P now
          (({ b with disconnected := b.disconnected.set k d',
                     attempts := (k, now, d.banScore) :: b.attempts } : Book).startOutgoing k d') rest
      else Book.stepPeers P now b rest) := by
  rw [net_step_dial_iff]
  rw [Book.stepPeers]
  simp only [hd]
  cases h : (k.outgoing && !(b.myAddresses.contains (k.host, k.port)) && isTimeToConnect P d.banScore d.lastAttempt now) <;>
    simp [h]

/-! ### the peers file -/

/-- `write_peers`, from the opening of the temporary file: the list is written into the temporary file, the file is closed,
and only then renamed over `peers.json` (the order on which `C19.save_atomic` rests) -/
theorem write_peers_rename_after_close :
    Gen.write_peers_effects = (["open_new", "dump", "close_new", "rename"], false) := by
  first | rfl | decide

end GenTie

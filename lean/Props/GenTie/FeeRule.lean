import Proofs.Validation
import Gen.TransactionFee

/-!
GenTie.FeeRule — `get_transaction_fee`, translated from the current source over declared atoms (the values of the spent outputs,
the values of the created outputs), is the model's `txFee`: what the inputs bring **minus** what the outputs take, as a signed
number (a transaction that overspends has a negative fee; that is refused elsewhere).
-/

set_option linter.unusedSimpArgs false
set_option linter.unusedVariables false

namespace GenTie
open Model

theorem transaction_fee_eq (ins outs : List Nat) :
    Gen.transaction_fee ins outs = (ins.sum : Int) - (outs.sum : Int) := by
  first
  | rfl
  | (unfold Gen.transaction_fee; simp; done)
  | (unfold Gen.transaction_fee; omega)

/-- the model's fee of a transaction is the translated function on the values the model looks up -/
theorem model_fee_as_translated (u : Utxo) (t : CTx) (total : Nat) (h : inputsValue u t.tx.inputs = .ok total)
    (ins : List Nat) (hins : ins.sum = total) :
    txFee u t = .ok (Gen.transaction_fee ins (t.tx.outputs.map (·.value))) := by
  unfold txFee
  rw [h, transaction_fee_eq, hins]
  simp [bind, Except.bind, pure, Except.pure, outputsValue]

end GenTie

import Proofs.Validation
import Gen.TransactionFee

/-!
GenTie.FeeRule — `get_transaction_fee`, translated from the current source over declared atoms (the values of the spent outputs,
the values of the created outputs), is the model's `txFee`: what the inputs bring **minus** what the outputs take, as a signed
number (a transaction that overspends has a negative fee; that is refused elsewhere).
-/

set_option linter.unusedSimpArgs false
set_option linter.unusedVariables false

namespace GenTie
open Model

theorem transaction_fee_eq (ins outs : List Nat) :
    Gen.transaction_fee ins outs = (ins.sum : Int) - (outs.sum : Int) := by
  first
  | rfl
  | (unfold Gen.transaction_fee; simp; done)
  | (unfold Gen.transaction_fee; omega)

/-- the model's sum over the inputs is the sum of the looked-up values, in input order -/
theorem inputsValue_of_values (u : Utxo) (inputs : List Input) (vals : List Nat)
    (h : inputs.mapM (fun i => (u.get? i.ref).map (·.value)) = some vals) :
    inputsValue u inputs = .ok vals.sum := by
  induction inputs generalizing vals with
  | nil =>
    simp only [List.mapM_nil, pure, Option.some.injEq] at h
    subst h; rfl
  | cons i rest ih =>
    rw [List.mapM_cons] at h
    simp only [inputsValue]
    cases ho : u.get? i.ref with
    | none => simp [ho] at h
    | some o =>
      cases hr : rest.mapM (fun i => (u.get? i.ref).map (·.value)) with
      | none => simp [ho, hr] at h
      | some vs =>
        simp only [ho, hr, Option.map_some, Option.bind_eq_bind, Option.bind_some, pure, Option.some.injEq] at h
        subst h
        rw [ih vs hr]
        simp [bind, Except.bind, pure, Except.pure]

/-- conversely, whenever the model's sum is defined every input's spent output was found, and the sum is that of their values -/
theorem values_of_inputsValue (u : Utxo) (inputs : List Input) (total : Nat) (h : inputsValue u inputs = .ok total) :
    ∃ vals, inputs.mapM (fun i => (u.get? i.ref).map (·.value)) = some vals ∧ vals.sum = total := by
  induction inputs generalizing total with
  | nil =>
    simp only [inputsValue, Except.ok.injEq] at h
    exact ⟨[], by simp [pure], by simpa using h⟩
  | cons i rest ih =>
    simp only [inputsValue] at h
    cases ho : u.get? i.ref with
    | none => simp [ho] at h
    | some o =>
      simp only [ho] at h
      cases hr : inputsValue u rest with
      | error e => simp [hr, bind, Except.bind] at h
      | ok r =>
        simp only [hr, bind, Except.bind, pure, Except.pure, Except.ok.injEq] at h
        obtain ⟨vs, hvs, hsum⟩ := ih r hr
        refine ⟨o.value :: vs, ?_, ?_⟩
        · rw [List.mapM_cons]
          simp [ho, hvs, pure]
        · simp [hsum, h]

/-- the model's fee of a transaction is the translated function applied to **the values the model looks up**: `vals` is
exactly the list of the values of the outputs spent by the inputs of `t`, found in the unspent set `u`, in input order (the
hypothesis `h` determines `vals`; it holds for some `vals` whenever every input's spent output is in `u`), and the second
argument is the list of the values of the outputs of `t`, in order -/
theorem model_fee_as_translated (u : Utxo) (t : CTx) (vals : List Nat)
    (h : t.tx.inputs.mapM (fun i => (u.get? i.ref).map (·.value)) = some vals) :
    txFee u t = .ok (Gen.transaction_fee vals (t.tx.outputs.map (·.value))) := by
  unfold txFee
  rw [inputsValue_of_values u t.tx.inputs vals h, transaction_fee_eq]
  simp [bind, Except.bind, pure, Except.pure, outputsValue]

/-- and the model's fee is defined exactly when all those values are found; otherwise it is the `KeyError` of the look-up -/
theorem model_fee_defined_iff (u : Utxo) (t : CTx) :
    (∃ f, txFee u t = .ok f) ↔ ∃ vals, t.tx.inputs.mapM (fun i => (u.get? i.ref).map (·.value)) = some vals := by
  constructor
  · rintro ⟨f, hf⟩
    unfold txFee at hf
    cases hi : inputsValue u t.tx.inputs with
    | error e => simp [hi, bind, Except.bind] at hf
    | ok total =>
      obtain ⟨vals, hv, _⟩ := values_of_inputsValue u t.tx.inputs total hi
      exact ⟨vals, hv⟩
  · rintro ⟨vals, hv⟩
    exact ⟨_, model_fee_as_translated u t vals hv⟩

/-- the weaker former statement, kept for its users: the translated function on *any* list of naturals with the sum the
model computes (the list is not tied to the inputs; see `model_fee_as_translated` for the statement over the looked-up values) -/
theorem model_fee_as_translated_of_sum (u : Utxo) (t : CTx) (total : Nat) (h : inputsValue u t.tx.inputs = .ok total)
    (ins : List Nat) (hins : ins.sum = total) :
    txFee u t = .ok (Gen.transaction_fee ins (t.tx.outputs.map (·.value))) := by
  unfold txFee
  rw [h, transaction_fee_eq, hins]
  simp [bind, Except.bind, pure, Except.pure, outputsValue]

end GenTie

import Model.Wallet
import Gen.CreateSpend

/-!
GenTie.SpendPlanRule — `wallet.create_spend_transaction`, translated from the current source (`Gen.create_spend`: the scan over
the wallet's keys and, per key, over the references listed for it, with the running total, the chosen inputs, the outputs built
when the total suffices and the references newly recorded as used), is the model's `Wallet.planSpend` / `Wallet.createSpend`.

1. `create_spend_closed_form`: the translated function, in closed form. Let `flat keys` be the references of all keys that have
   a balance entry, in order, that are not already used. The result is `none` exactly when no non-empty prefix of `flat keys`
   has a total reaching `value + fee`; otherwise it is `spendOf value fee pre` for the SHORTEST non-empty prefix `pre` of
   `flat keys` whose total reaches `value + fee`: the inputs are the ids of `pre`, the outputs are `value` and, when the total
   differs from `value + fee`, the change `total pre - (value + fee)`, and the references newly recorded as used are the inputs.
2. `model_plan_is_translated`: on the atoms read off a wallet, the balances and the unspent set (under ANY encoding of
   references as numbers), the model's `Wallet.planSpend` decides and builds what the translated function does.
3. `model_createSpend_is_translated`: the wallet's record of used outputs after a successful `Wallet.createSpend` is the old
   record plus exactly the references whose encodings are the third component of the translated result.
-/

set_option linter.unusedSimpArgs false
set_option linter.unusedVariables false

namespace GenTie
open Model

namespace SpendPlan

/-- what the translated function is given per reference: (already used, value, id) -/
abbrev Atom := Bool × Nat × Nat

/-- the references of all keys that have a balance entry, in order, that are not already used -/
def flat (keys : List (Option (List Atom))) : List Atom :=
  (keys.filterMap id).flatten.filter (fun r => !r.1)

/-- the total value of a list of references -/
def total (l : List Atom) : Nat := (l.map (·.2.1)).sum

/-- the ids of a list of references -/
def ids (l : List Atom) : List Nat := l.map (·.2.2)

/-- reference scan: the shortest non-empty prefix of the list whose total, added to `acc`, reaches `target` -/
def reach (target : Nat) : List Atom → Nat → Option (List Atom)
  | [], _ => none
  | a :: rest, acc =>
    if acc + a.2.1 ≥ target then some [a] else (reach target rest (acc + a.2.1)).map (a :: ·)

/-- the output values: the amount and, unless the collected value is exact, the change -/
def outputsFor (value fee collected : Nat) : List Nat :=
  [value] ++ (if collected ≠ value + fee then [collected - (value + fee)] else [])

/-- the result for the chosen references: (inputs, output values, references newly recorded as used) -/
def spendOf (value fee : Nat) (pre : List Atom) : List Nat × List Nat × List Nat :=
  (ids pre, outputsFor value fee (total pre), ids pre)

/-- `pre` is the shortest non-empty prefix of `l` whose total reaches `target` -/
structure IsShortestReaching (target : Nat) (l pre : List Atom) : Prop where
  nonempty : pre ≠ []
  isPrefix : pre <+: l
  reaches : target ≤ total pre
  shortest : ∀ pre' : List Atom, pre' ≠ [] → pre' <+: l → target ≤ total pre' → pre.length ≤ pre'.length

@[simp] theorem total_nil : total [] = 0 := rfl
@[simp] theorem total_cons (a : Atom) (l : List Atom) : total (a :: l) = a.2.1 + total l := by
  simp [total]
@[simp] theorem total_append (l1 l2 : List Atom) : total (l1 ++ l2) = total l1 + total l2 := by
  simp [total]
@[simp] theorem ids_nil : ids [] = [] := rfl
@[simp] theorem ids_cons (a : Atom) (l : List Atom) : ids (a :: l) = a.2.2 :: ids l := rfl
@[simp] theorem ids_append (l1 l2 : List Atom) : ids (l1 ++ l2) = ids l1 ++ ids l2 := by
  simp [ids]

/-! ### the reference scan -/

theorem reach_append (target : Nat) : ∀ (l1 l2 : List Atom) (acc : Nat),
    reach target (l1 ++ l2) acc =
      match reach target l1 acc with
      | some p => some p
      | none => (reach target l2 (acc + total l1)).map (l1 ++ ·) := by
  intro l1
  induction l1 with
  | nil => intro l2 acc; simp [reach]
  | cons a rest ih =>
    intro l2 acc
    simp only [List.cons_append, reach]
    by_cases h : acc + a.2.1 ≥ target
    · simp [h]
    · simp only [h, ↓reduceIte]
      rw [ih]
      cases hr : reach target rest (acc + a.2.1) with
      | some p => simp
      | none =>
        simp only [Option.map_none, total_cons, Nat.add_assoc]
        cases reach target l2 (acc + (a.2.1 + total rest)) <;> simp

theorem reach_some (target : Nat) : ∀ (l : List Atom) (acc : Nat) (pre : List Atom),
    reach target l acc = some pre →
      pre ≠ [] ∧ pre <+: l ∧ target ≤ acc + total pre ∧
      ∀ pre' : List Atom, pre' ≠ [] → pre' <+: l → target ≤ acc + total pre' → pre.length ≤ pre'.length := by
  intro l
  induction l with
  | nil => intro acc pre h; simp [reach] at h
  | cons a rest ih =>
    intro acc pre h
    simp only [reach] at h
    by_cases hge : acc + a.2.1 ≥ target
    · simp only [hge, ↓reduceIte, Option.some.injEq] at h
      subst h
      refine ⟨by simp, ⟨rest, rfl⟩, by simpa using hge, ?_⟩
      intro pre' hne _ _
      cases pre' with
      | nil => exact absurd rfl hne
      | cons b q => simp
    · simp only [hge, ↓reduceIte] at h
      cases hr : reach target rest (acc + a.2.1) with
      | none => simp [hr] at h
      | some p =>
        simp only [hr, Option.map_some, Option.some.injEq] at h
        subst h
        obtain ⟨_, hpre, hreach, hshort⟩ := ih _ _ hr
        refine ⟨by simp, ?_, ?_, ?_⟩
        · exact (List.cons_prefix_cons).2 ⟨rfl, hpre⟩
        · simp only [total_cons]; omega
        · intro pre' hne hpre' hreach'
          cases pre' with
          | nil => exact absurd rfl hne
          | cons b q =>
            obtain ⟨hb, hq⟩ := (List.cons_prefix_cons).1 hpre'
            subst hb
            simp only [total_cons] at hreach'
            cases q with
            | nil => simp only [total_nil] at hreach'; omega
            | cons c q' =>
              have := hshort (c :: q') (by simp) hq (by omega)
              simp only [List.length_cons] at this ⊢
              omega

theorem reach_none (target : Nat) : ∀ (l : List Atom) (acc : Nat),
    reach target l acc = none →
      ∀ pre : List Atom, pre ≠ [] → pre <+: l → acc + total pre < target := by
  intro l
  induction l with
  | nil =>
    intro acc _ pre hne hpre
    exact absurd (List.prefix_nil.1 hpre) hne
  | cons a rest ih =>
    intro acc h pre hne hpre
    simp only [reach] at h
    by_cases hge : acc + a.2.1 ≥ target
    · simp [hge] at h
    · simp only [hge, ↓reduceIte, Option.map_eq_none_iff] at h
      cases pre with
      | nil => exact absurd rfl hne
      | cons b q =>
        obtain ⟨hb, hq⟩ := (List.cons_prefix_cons).1 hpre
        subst hb
        simp only [total_cons]
        cases q with
        | nil => simp only [total_nil]; omega
        | cons c q' =>
          have := ih _ h (c :: q') (by simp) hq
          omega

/-- there is at most one shortest reaching prefix -/
theorem IsShortestReaching.unique {target : Nat} {l p q : List Atom}
    (hp : IsShortestReaching target l p) (hq : IsShortestReaching target l q) : p = q := by
  have h1 := hp.shortest q hq.nonempty hq.isPrefix hq.reaches
  have h2 := hq.shortest p hp.nonempty hp.isPrefix hp.reaches
  have hpq : p <+: q := List.prefix_of_prefix_length_le hp.isPrefix hq.isPrefix h1
  exact hpq.eq_of_length (by omega)

theorem reach_eq_some_iff (target : Nat) (l pre : List Atom) :
    reach target l 0 = some pre ↔ IsShortestReaching target l pre := by
  constructor
  · intro h
    obtain ⟨h1, h2, h3, h4⟩ := reach_some target l 0 pre h
    exact ⟨h1, h2, by simpa using h3, fun pre' a b c => h4 pre' a b (by simpa using c)⟩
  · intro hp
    cases hr : reach target l 0 with
    | none =>
      have := reach_none target l 0 hr pre hp.nonempty hp.isPrefix
      have := hp.reaches
      omega
    | some q =>
      obtain ⟨h1, h2, h3, h4⟩ := reach_some target l 0 q hr
      have hq : IsShortestReaching target l q :=
        ⟨h1, h2, by simpa using h3, fun pre' a b c => h4 pre' a b (by simpa using c)⟩
      rw [hq.unique hp]

theorem reach_eq_none_iff (target : Nat) (l : List Atom) :
    reach target l 0 = none ↔ ∀ pre : List Atom, pre ≠ [] → pre <+: l → total pre < target := by
  constructor
  · intro h pre hne hpre
    simpa using reach_none target l 0 h pre hne hpre
  · intro h
    cases hr : reach target l 0 with
    | none => rfl
    | some q =>
      obtain ⟨h1, h2, h3, _⟩ := reach_some target l 0 q hr
      have := h q h1 h2
      omega

/-- dropping the last chosen reference leaves less than the target (unless only one reference was chosen — with a target of
0 the first unused reference is taken whatever its value) -/
theorem IsShortestReaching.dropLast_lt {target : Nat} {l pre : List Atom}
    (hp : IsShortestReaching target l pre) : total pre.dropLast < target ∨ pre.length = 1 := by
  by_cases hlen : pre.length = 1
  · exact Or.inr hlen
  · left
    have hne := hp.nonempty
    have hpos : 0 < pre.length := List.length_pos_iff.2 hne
    have hd : pre.dropLast ≠ [] := by
      intro h
      have : pre.dropLast.length = 0 := by rw [h]; rfl
      simp only [List.length_dropLast] at this
      omega
    have hpre : pre.dropLast <+: l := (List.dropLast_prefix pre).trans hp.isPrefix
    apply Nat.lt_of_not_le
    intro hreach
    have := hp.shortest _ hd hpre hreach
    simp only [List.length_dropLast] at this
    omega

/-! ### the translated scan is the reference scan -/

theorem flat_nil : flat [] = [] := rfl

theorem flat_none (keys : List (Option (List Atom))) : flat (none :: keys) = flat keys := by
  simp [flat]

theorem flat_some (refs : List Atom) (keys : List (Option (List Atom))) :
    flat (some refs :: keys) = refs.filter (fun r => !r.1) ++ flat keys := by
  simp [flat]

theorem inner_eq (value fee : Nat) : ∀ (refs : List Atom) (acc : Nat) (ins : List Nat),
    Gen.create_spend.inner value fee refs acc ins =
      match reach (value + fee) (refs.filter (fun r => !r.1)) acc with
      | some pre => Sum.inr (ins ++ ids pre, outputsFor value fee (acc + total pre), ins ++ ids pre)
      | none => Sum.inl (acc + total (refs.filter (fun r => !r.1)), ins ++ ids (refs.filter (fun r => !r.1))) := by
  intro refs
  induction refs with
  | nil => intro acc ins; simp [Gen.create_spend.inner, reach]
  | cons a rest ih =>
    intro acc ins
    obtain ⟨used, v, id⟩ := a
    rw [Gen.create_spend.inner]
    cases used with
    | true => simp [ih]
    | false =>
      simp only [Bool.false_eq_true, ↓reduceIte, Bool.not_false, List.filter_cons_of_pos, reach]
      by_cases hge : acc + v ≥ value + fee
      · have hsub : ((((acc + v : Nat) : Int) - (((value : Nat) : Int) + ((fee : Nat) : Int)))).toNat
            = acc + v - (value + fee) := by omega
        simp only [hge, decide_true, ↓reduceIte, hsub]
        by_cases hne : acc + v = value + fee
        · simp [outputsFor, hne]
        · simp [outputsFor, hne]
      · simp only [hge, decide_false, Bool.false_eq_true, ↓reduceIte]
        rw [ih]
        cases hr : reach (value + fee) (rest.filter (fun r => !r.1)) (acc + v) with
        | some p => simp [Nat.add_assoc]
        | none => simp [Nat.add_assoc]

theorem outer_eq (value fee : Nat) : ∀ (keys : List (Option (List Atom))) (acc : Nat) (ins : List Nat),
    Gen.create_spend.outer value fee keys acc ins =
      (reach (value + fee) (flat keys) acc).map fun pre =>
        (ins ++ ids pre, outputsFor value fee (acc + total pre), ins ++ ids pre) := by
  intro keys
  induction keys with
  | nil => intro acc ins; simp [Gen.create_spend.outer, flat_nil, reach]
  | cons k rest ih =>
    intro acc ins
    cases k with
    | none => rw [Gen.create_spend.outer, ih, flat_none]
    | some refs =>
      rw [Gen.create_spend.outer, inner_eq, flat_some, reach_append]
      cases hr : reach (value + fee) (refs.filter (fun r => !r.1)) acc with
      | some p => simp
      | none =>
        simp only [ih]
        cases reach (value + fee) (flat rest) (acc + total (refs.filter (fun r => !r.1))) <;>
          simp [Nat.add_assoc]

/-- the translated function is the reference scan over the flat list of unused references -/
theorem create_spend_eq_reach (value fee : Nat) (keys : List (Option (List Atom))) :
    Gen.create_spend value fee keys = (reach (value + fee) (flat keys) 0).map (spendOf value fee) := by
  unfold Gen.create_spend
  rw [outer_eq]
  cases reach (value + fee) (flat keys) 0 <;> simp [spendOf]

end SpendPlan

open SpendPlan

/-! ### 1. the closed form -/

/-- `Gen.create_spend value fee keys` is `none` exactly when no non-empty prefix of the unused references (in key order) has a
total reaching `value + fee` — in particular when there is no unused reference at all, even for `value + fee = 0` —, and
otherwise it is `spendOf value fee pre` for the shortest such prefix `pre`: inputs `ids pre`, outputs `value` and (when
`total pre ≠ value + fee`) the change `total pre - (value + fee)`, references newly recorded as used `ids pre`. -/
theorem create_spend_closed_form (value fee : Nat) (keys : List (Option (List Atom))) :
    (Gen.create_spend value fee keys = none ↔
      ∀ pre : List Atom, pre ≠ [] → pre <+: flat keys → total pre < value + fee) ∧
    (∀ res, Gen.create_spend value fee keys = some res ↔
      ∃ pre, IsShortestReaching (value + fee) (flat keys) pre ∧ res = spendOf value fee pre) := by
  rw [create_spend_eq_reach]
  constructor
  · rw [Option.map_eq_none_iff, reach_eq_none_iff]
  · intro res
    rw [Option.map_eq_some_iff]
    constructor
    · rintro ⟨pre, h, rfl⟩
      exact ⟨pre, (reach_eq_some_iff _ _ _).1 h, rfl⟩
    · rintro ⟨pre, h, rfl⟩
      exact ⟨pre, (reach_eq_some_iff _ _ _).2 h, rfl⟩

/-- what a returned transaction looks like, spelled out: the chosen references are a non-empty prefix of the unused ones, they
cover `value + fee`, without the last one they do not (unless a single reference was chosen), the outputs are the amount and
the change, and the references newly recorded as used are exactly the inputs -/
theorem create_spend_some (value fee : Nat) (keys : List (Option (List Atom)))
    (inputs outputs newlyUsed : List Nat)
    (h : Gen.create_spend value fee keys = some (inputs, outputs, newlyUsed)) :
    ∃ pre : List Atom, pre ≠ [] ∧ pre <+: flat keys ∧ inputs = ids pre ∧ newlyUsed = inputs ∧
      value + fee ≤ total pre ∧ (total pre.dropLast < value + fee ∨ pre.length = 1) ∧
      outputs = [value] ++ (if total pre ≠ value + fee then [total pre - (value + fee)] else []) ∧
      outputs.sum + fee = total pre := by
  obtain ⟨pre, hp, hres⟩ := ((create_spend_closed_form value fee keys).2 _).1 h
  simp only [spendOf, Prod.mk.injEq] at hres
  obtain ⟨h1, h2, h3⟩ := hres
  refine ⟨pre, hp.nonempty, hp.isPrefix, h1, by rw [h3, h1], hp.reaches, hp.dropLast_lt, h2, ?_⟩
  have := hp.reaches
  rw [h2, outputsFor]
  by_cases hne : total pre = value + fee
  · simp [hne]
  · simp [hne]; omega

/-- with no unused reference the result is `none` whatever the amount (the loop body never runs) -/
theorem create_spend_no_refs (value fee : Nat) (keys : List (Option (List Atom))) (h : flat keys = []) :
    Gen.create_spend value fee keys = none := by
  rw [(create_spend_closed_form value fee keys).1, h]
  intro pre hne hpre
  exact absurd (List.prefix_nil.1 hpre) hne

/-- the result is `none` when the unused references do not add up to `value + fee` -/
theorem create_spend_insufficient (value fee : Nat) (keys : List (Option (List Atom)))
    (h : total (flat keys) < value + fee) : Gen.create_spend value fee keys = none := by
  rw [(create_spend_closed_form value fee keys).1]
  intro pre _ hpre
  obtain ⟨s, hs⟩ := hpre
  have : total (flat keys) = total pre + total s := by rw [← hs, total_append]
  omega

/-- and a transaction is returned when there is an unused reference and they add up to `value + fee` -/
theorem create_spend_sufficient (value fee : Nat) (keys : List (Option (List Atom)))
    (hne : flat keys ≠ []) (h : value + fee ≤ total (flat keys)) :
    (Gen.create_spend value fee keys).isSome = true := by
  cases hc : Gen.create_spend value fee keys with
  | some r => rfl
  | none =>
    have := (create_spend_closed_form value fee keys).1.1 hc (flat keys) hne (List.prefix_refl _)
    omega

/-! ### 2. the model's plan is the translated function -/

/-- the atoms of one reference: used already by this wallet; its value in the unspent set; its encoding -/
def refAtom (w : Wallet) (u : Utxo) (enc : OutRef → Nat) (r : OutRef) : Atom :=
  (w.spent.any (· = r), (match u.get? r with | some o => o.value | none => 0), enc r)

/-- the atoms the translated function is given: per key (in order), `none` when the key has no balance entry, else the atoms of
the references listed for it -/
def keyAtoms (w : Wallet) (u : Utxo) (bal : PKBalances) (enc : OutRef → Nat) : List (Option (List Atom)) :=
  w.keys.map fun pk => (bal.get? pk).map fun e => e.refs.map (refAtom w u enc)

/-- the unused references the translated function scans are the model's candidates -/
theorem flat_keyAtoms (w : Wallet) (u : Utxo) (bal : PKBalances) (enc : OutRef → Nat) :
    flat (keyAtoms w u bal enc) = (w.candidates bal).map (refAtom w u enc) := by
  unfold keyAtoms Wallet.candidates
  generalize w.keys = ks
  induction ks with
  | nil => simp [flat_nil]
  | cons pk rest ih =>
    simp only [List.map_cons, List.flatMap_cons, List.map_append]
    cases hb : bal.get? pk with
    | none => simp only [Option.map_none, flat_none, ih, List.map_nil, List.nil_append]
    | some e =>
      simp only [Option.map_some, flat_some, ih, List.filter_map]
      congr 1

/-- the model's collection loop is the reference scan, when every candidate is in the unspent set -/
theorem takeUntil_reach (w : Wallet) (u : Utxo) (enc : OutRef → Nat) (target : Nat) :
    ∀ (cands : List OutRef) (acc : Nat), (∀ r ∈ cands, (u.get? r).isSome) →
      match takeUntil u target cands acc with
      | .error _ => False
      | .ok none => reach target (cands.map (refAtom w u enc)) acc = none
      | .ok (some (chosen, collected)) =>
        reach target (cands.map (refAtom w u enc)) acc = some (chosen.map fun x => refAtom w u enc x.1) ∧
        collected = acc + total (chosen.map fun x => refAtom w u enc x.1) := by
  intro cands
  induction cands with
  | nil => intro acc _; simp [takeUntil, reach]
  | cons r rest ih =>
    intro acc hall
    have hr := hall r (by simp)
    have hrest : ∀ r ∈ rest, (u.get? r).isSome := fun x hx => hall x (by simp [hx])
    cases hu : u.get? r with
    | none => simp [hu] at hr
    | some o =>
      have hv : (refAtom w u enc r).2.1 = o.value := by simp [refAtom, hu]
      simp only [takeUntil, hu, List.map_cons, reach, hv]
      by_cases hge : acc + o.value ≥ target
      · simp [hge, hv]
      · simp only [hge, ↓reduceIte]
        have := ih (acc + o.value) hrest
        cases ht : takeUntil u target rest (acc + o.value) with
        | error e => simp [ht] at this
        | ok res =>
          cases res with
          | none =>
            simp only [ht] at this
            simp [this]
          | some p =>
            obtain ⟨chosen, collected⟩ := p
            simp only [ht] at this
            obtain ⟨h1, h2⟩ := this
            simp [h1, h2, hv, Nat.add_assoc]

/-- the model's `Wallet.planSpend` is the translated `create_spend_transaction` on the atoms read off the wallet, the balances
and the unspent set, for any encoding `enc` of references as numbers — provided every candidate reference (listed in the
balances for one of the wallet's keys and not yet used by the wallet) is in the unspent set (otherwise the Python raises
`KeyError`, which the translated function's atoms do not express):
"Insufficient balance" is raised exactly when the translated function returns `none`, and a planned transaction has the
translated function's inputs, output values and newly-used references. -/
theorem model_plan_is_translated (w : Wallet) (u : Utxo) (bal : PKBalances) (amount fee : Nat)
    (recipient change : Bytes) (enc : OutRef → Nat)
    (hpresent : ∀ r ∈ w.candidates bal, (u.get? r).isSome) :
    (w.planSpend u bal amount fee recipient change = .error (.other "Insufficient balance") ↔
      Gen.create_spend amount fee (keyAtoms w u bal enc) = none) ∧
    (∀ chosen tx, w.planSpend u bal amount fee recipient change = .ok (chosen, tx) →
      Gen.create_spend amount fee (keyAtoms w u bal enc) =
        some (chosen.map (fun x => enc x.1), tx.outputs.map (·.value), chosen.map (fun x => enc x.1))) := by
  have hscan := takeUntil_reach w u enc (amount + fee) (w.candidates bal) 0 hpresent
  rw [create_spend_eq_reach, flat_keyAtoms]
  unfold Wallet.planSpend
  cases ht : takeUntil u (amount + fee) (w.candidates bal) 0 with
  | error e => simp [ht] at hscan
  | ok res =>
    cases res with
    | none =>
      simp only [ht] at hscan
      simp [hscan]
    | some p =>
      obtain ⟨chosen, collected⟩ := p
      simp only [ht] at hscan
      obtain ⟨h1, h2⟩ := hscan
      have hids : ids (chosen.map fun x => refAtom w u enc x.1) = chosen.map (fun x => enc x.1) := by
        simp [ids, refAtom, Function.comp_def]
      constructor
      · simp [h1]
      · intro chosen' tx heq
        simp only [Except.ok.injEq, Prod.mk.injEq] at heq
        obtain ⟨hc, htx⟩ := heq
        subst hc
        subst htx
        simp only [h1, Option.map_some, spendOf, hids, Option.some.injEq, Prod.mk.injEq, true_and, and_true]
        simp only [Nat.zero_add] at h2
        rw [outputsFor, ← h2]
        by_cases hne : collected = amount + fee
        · simp [hne]
        · simp [hne]

/-- no other error: with every candidate in the unspent set, `Wallet.planSpend` either plans a transaction or raises
"Insufficient balance" -/
theorem model_plan_total (w : Wallet) (u : Utxo) (bal : PKBalances) (amount fee : Nat)
    (recipient change : Bytes) (hpresent : ∀ r ∈ w.candidates bal, (u.get? r).isSome) :
    w.planSpend u bal amount fee recipient change = .error (.other "Insufficient balance") ∨
      ∃ chosen tx, w.planSpend u bal amount fee recipient change = .ok (chosen, tx) := by
  have hscan := takeUntil_reach w u (fun _ => 0) (amount + fee) (w.candidates bal) 0 hpresent
  unfold Wallet.planSpend
  cases ht : takeUntil u (amount + fee) (w.candidates bal) 0 with
  | error e => simp [ht] at hscan
  | ok res =>
    cases res with
    | none => left; rfl
    | some p => right; exact ⟨_, _, rfl⟩

/-! ### 3. the record of used outputs -/

/-- after a successful `Wallet.createSpend` the wallet's record of used outputs is the old record plus exactly the chosen
references, and their encodings are the third component (references newly recorded as used) of the translated result — which
are also its inputs; nothing else about the wallet changes, and the signed transaction has the translated output values -/
theorem model_createSpend_is_translated (w w' : Wallet) (u : Utxo) (bal : PKBalances) (amount fee : Nat)
    (recipient change : Bytes) (sigs : List Bytes) (signed : Tx) (enc : OutRef → Nat)
    (hpresent : ∀ r ∈ w.candidates bal, (u.get? r).isSome)
    (h : w.createSpend u bal amount fee recipient change sigs = .ok (w', signed)) :
    ∃ newRefs : List OutRef,
      w'.spent = w.spent ++ newRefs ∧
      w' = { w with spent := w.spent ++ newRefs } ∧
      signed.inputs.map (·.ref) = newRefs ∧
      Gen.create_spend amount fee (keyAtoms w u bal enc) =
        some (newRefs.map enc, signed.outputs.map (·.value), newRefs.map enc) := by
  unfold Wallet.createSpend at h
  cases hp : w.planSpend u bal amount fee recipient change with
  | error e => simp [hp] at h
  | ok p =>
    obtain ⟨chosen, unsigned⟩ := p
    simp only [hp] at h
    cases hs : w.signTx chosen unsigned sigs with
    | error e => simp [hs] at h
    | ok s =>
      simp only [hs, Except.ok.injEq, Prod.mk.injEq] at h
      obtain ⟨hw, hsigned⟩ := h
      subst hw
      subst hsigned
      have htr := (model_plan_is_translated w u bal amount fee recipient change enc hpresent).2 chosen unsigned hp
      unfold Wallet.signTx at hs
      split at hs
      · next hcond =>
        simp only [Except.ok.injEq] at hs
        subst hs
        simp only [Bool.and_eq_true, decide_eq_true_eq] at hcond
        refine ⟨chosen.map (·.1), rfl, rfl, ?_, ?_⟩
        · simp only [List.map_map]
          have hlen := hcond.2
          clear htr hp hcond
          induction chosen generalizing sigs with
          | nil => simp
          | cons c rest ih =>
            cases sigs with
            | nil => simp at hlen
            | cons sg sgs =>
              simp only [List.length_cons, Nat.add_right_cancel_iff] at hlen
              simp [ih sgs hlen]
        · simpa [List.map_map, Function.comp_def] using htr
      · simp at hs

/-! ### non-vacuity -/

example : Gen.create_spend 5 0 [some [(false, 3, 10)], none, some [(true, 9, 11), (false, 7, 12)]] =
    some ([10, 12], [5, 5], [10, 12]) := by decide

/-- exact amount: no change output -/
example : Gen.create_spend 8 2 [some [(false, 3, 10)], none, some [(true, 9, 11), (false, 7, 12), (false, 1, 13)]] =
    some ([10, 12], [8], [10, 12]) := by decide

/-- insufficient: the used reference does not count -/
example : Gen.create_spend 11 0 [some [(false, 3, 10)], none, some [(true, 9, 11), (false, 7, 12)]] = none := by decide

/-- nothing to spend: `none` even for a zero amount -/
example : Gen.create_spend 0 0 [none, some [(true, 9, 11)]] = none := by decide

/-- a zero amount takes the first unused reference and returns it all as change -/
example : Gen.create_spend 0 0 [none, some [(true, 9, 11), (false, 4, 12)]] = some ([12], [0, 4], [12]) := by decide

example : flat [some [(false, 3, 10)], none, some [(true, 9, 11), (false, 7, 12)]] = [(false, 3, 10), (false, 7, 12)] := by
  decide

example : IsShortestReaching 5 [(false, 3, 10), (false, 7, 12)] [(false, 3, 10), (false, 7, 12)] :=
  (reach_eq_some_iff _ _ _).1 (by decide)

end GenTie

import Model.Node
import Model.Store
import Gen.FlushEffects
import Gen.BufferAddEffects

/-!
GenTie.FlushRule — `BlockStore.flush_blocks_to_disk`, translated from the current source as an effect tree, is the model's flush:
the **whole** write buffer, in buffer order, is handed to the writer in one call, then the buffer is cleared; an empty buffer means
no write at all.
-/

set_option linter.unusedSimpArgs false
set_option linter.unusedVariables false

namespace GenTie
open Model

/-- on the node model: the store's rows (insert-or-ignore by id) and the buffer -/
def runFlushEffect (C : Crypto) (n : Node) : String → Node
  | "write_whole_buffer" =>
      { n with disk := n.wbuf.foldl (fun d b => if d.any (fun x => x.id C = b.id C) then d else d ++ [b]) n.disk }
  | "clear_buffer" => { n with wbuf := [] }
  | _ => n

theorem model_flush_is_translated_effects (C : Crypto) (n : Node) :
    Node.flush C n = (Gen.flush_effects (n.wbuf.length != 0)).1.foldl (runFlushEffect C) n ∧
    (Gen.flush_effects (n.wbuf.length != 0)).2 = false := by
  unfold Node.flush Gen.flush_effects
  cases hw : n.wbuf with
  | nil =>
    simp [hw, runFlushEffect]
    cases n
    simp_all
  | cons b rest => simp [hw, runFlushEffect]

/-- on the relational store model: one `Store.write` of the whole buffer (a sequence of flushes is `Store.writeAll`) -/
theorem flush_writes_the_whole_buffer (buffer_nonempty : Bool) :
    (Gen.flush_effects buffer_nonempty).1 =
      (if buffer_nonempty then ["acquire", "write_whole_buffer", "clear_buffer", "release"] else ["acquire", "release"]) := by
  cases buffer_nonempty <;> rfl

/-! ### two writers of one store (miner thread and networking thread)

`add_block_to_buffer` is translated too. Both functions touch the buffer only between acquiring and releasing the store's lock;
so in every schedule of a flush and a concurrent hand-over that respects the lock, the block handed over is neither lost nor
does it make an earlier block get lost: it is written by this flush or still buffered for the next. -/

theorem buffer_add_under_lock : Gen.buffer_add_effects = (["acquire", "append", "release"], false) := by
  first | rfl | decide

/-- all ways of merging the steps of thread 0 and thread 1 into one schedule -/
def mergesF : Nat → List String → List String → List (List (Nat × String))
  | 0, _, _ => []
  | _ + 1, [], b => [b.map fun y => (1, y)]
  | _ + 1, x :: a, [] => [(x :: a).map fun y => (0, y)]
  | k + 1, x :: a, y :: b =>
      (mergesF k a (y :: b)).map (fun m => (0, x) :: m) ++ (mergesF k (x :: a) b).map (fun m => (1, y) :: m)

def merges (a b : List String) : List (List (Nat × String)) := mergesF (a.length + b.length + 1) a b

/-- a schedule respects the lock: it is acquired only when free and released only by its owner -/
def lockOk : Option Nat → List (Nat × String) → Bool
  | _, [] => true
  | owner, (t, tok) :: rest =>
    if tok = "acquire" then owner.isNone && lockOk (some t) rest
    else if tok = "release" then (owner == some t) && lockOk none rest
    else lockOk owner rest

/-- the store under a schedule: rows, buffer; `x` is the block handed over -/
def runSched {β : Type} (x : β) : List β × List β → List (Nat × String) → List β × List β
  | s, [] => s
  | (d, b), (_, tok) :: rest =>
    if tok = "write_whole_buffer" then runSched x (d ++ b, b) rest
    else if tok = "clear_buffer" then runSched x (d, []) rest
    else if tok = "append" then runSched x (d, b ++ [x]) rest
    else runSched x (d, b) rest

theorem lock_respecting_schedules (ne : Bool) :
    (merges (Gen.flush_effects ne).1 Gen.buffer_add_effects.1).filter (lockOk none) =
      [ ((Gen.flush_effects ne).1.map fun y => (0, y)) ++ (Gen.buffer_add_effects.1.map fun y => (1, y)),
        (Gen.buffer_add_effects.1.map fun y => (1, y)) ++ ((Gen.flush_effects ne).1.map fun y => (0, y)) ] := by
  cases ne <;> decide

/-- no schedule that respects the lock loses a block -/
theorem concurrent_handover_not_lost {β : Type} (ne : Bool) (x : β) (d b : List β) (m : List (Nat × String))
    (hm : m ∈ merges (Gen.flush_effects ne).1 Gen.buffer_add_effects.1) (hl : lockOk none m = true) :
    let s := runSched x (d, b) m
    (x ∈ s.1 ∨ x ∈ s.2) ∧ (∀ y ∈ b, y ∈ s.1 ∨ y ∈ s.2) ∧ (∀ y ∈ d, y ∈ s.1) := by
  have hmem : m ∈ (merges (Gen.flush_effects ne).1 Gen.buffer_add_effects.1).filter (lockOk none) := by
    simp [List.mem_filter, hm, hl]
  rw [lock_respecting_schedules] at hmem
  rw [flush_writes_the_whole_buffer, buffer_add_under_lock] at hmem
  cases ne <;> simp at hmem <;> rcases hmem with h | h <;> subst h <;> simp [runSched] <;> grind

/-- without the lock around the hand-over there is a schedule that loses the block (so the lock tokens carry weight) -/
example :
    ∃ m ∈ merges (Gen.flush_effects true).1 ["append"], lockOk none m = true ∧
      (2 : Nat) ∉ (runSched 2 ([], [1]) m).1 ∧ (2 : Nat) ∉ (runSched 2 ([], [1]) m).2 :=
  ⟨[(0, "acquire"), (0, "write_whole_buffer"), (1, "append"), (0, "clear_buffer"), (0, "release")], by decide, by decide, by decide, by decide⟩

end GenTie

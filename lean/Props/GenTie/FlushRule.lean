import Model.Node
import Model.Store
import Gen.FlushEffects

/-!
GenTie.FlushRule — `BlockStore.flush_blocks_to_disk`, translated from the current source as an effect tree, is the model's flush:
the **whole** write buffer, in buffer order, is handed to the writer in one call, then the buffer is cleared; an empty buffer means
no write at all.
-/

set_option linter.unusedSimpArgs false
set_option linter.unusedVariables false

namespace GenTie
open Model

/-- on the node model: the store's rows (insert-or-ignore by id) and the buffer -/
def runFlushEffect (C : Crypto) (n : Node) : String → Node
  | "write_whole_buffer" =>
      { n with disk := n.wbuf.foldl (fun d b => if d.any (fun x => x.id C = b.id C) then d else d ++ [b]) n.disk }
  | "clear_buffer" => { n with wbuf := [] }
  | _ => n

theorem model_flush_is_translated_effects (C : Crypto) (n : Node) :
    Node.flush C n = (Gen.flush_effects (n.wbuf.length != 0)).1.foldl (runFlushEffect C) n ∧
    (Gen.flush_effects (n.wbuf.length != 0)).2 = false := by
  unfold Node.flush Gen.flush_effects
  cases hw : n.wbuf with
  | nil =>
    simp [hw, runFlushEffect]
    cases n
    simp_all
  | cons b rest => simp [hw, runFlushEffect]

/-- on the relational store model: one `Store.write` of the whole buffer (a sequence of flushes is `Store.writeAll`) -/
theorem flush_writes_the_whole_buffer (buffer_nonempty : Bool) :
    (Gen.flush_effects buffer_nonempty).1 = (if buffer_nonempty then ["write_whole_buffer", "clear_buffer"] else []) := by
  cases buffer_nonempty <;> rfl

end GenTie

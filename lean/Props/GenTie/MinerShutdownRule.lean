import Gen.MinerShutdownEffects

/-!
GenTie.MinerShutdownRule — the `finally` clause of `MinerWatcher.__call__` (what the miner does when its message loop ends: by
Ctrl-C, or by an error inside a handler — possibly after a found block has been broadcast and before the watcher has switched to a
fresh key), translated from the current source: the reserved mining key is given back **in memory only**. Nothing is saved on
this path: on disk the key stays handed out (it was saved right after the hand-out), so a key that a broadcast block already pays
is never listed as unused in the wallet file and is not handed out again after a restart (C15: "never handed out again … also
across save and load").
-/

namespace GenTie

theorem miner_shutdown_effects_eq :
    Gen.miner_shutdown_effects = (["restore_key_in_memory", "stop_networking", "join_networking"], false) := by
  rfl

/-- the shutdown path does not write the wallet file -/
theorem shutdown_does_not_save : "save_wallet" ∉ Gen.miner_shutdown_effects.1 := by
  rw [miner_shutdown_effects_eq]; decide

end GenTie

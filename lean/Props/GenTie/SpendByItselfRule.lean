import Props.GenTie.Subsidy
import Proofs.Validation
import Gen.SpendByItselfOk

/-!
GenTie.SpendByItselfRule — the decision of `validate_non_coinbase_transaction_by_itself`, translated from the current source
over declared atoms (with its three loops), is the model's: at least one input and one output, size limit, **every** output
value in range and the total in range, no reference repeated, no null reference, every input carrying a real signature.
-/

set_option linter.unusedSimpArgs false
set_option linter.unusedVariables false

namespace GenTie
open Model

theorem sbi_loop_eq : ∀ (values : List Nat) (total : Nat),
    Gen.spend_by_itself_ok.loop values total =
      if values.all (fun v => sashimiInRange Gen.params v) then some (total + values.sum) else none := by
  intro values
  induction values with
  | nil => intro total; simp [Gen.spend_by_itself_ok.loop]
  | cons v rest ih =>
    intro total
    rw [Gen.spend_by_itself_ok.loop, validate_sashimi_range_eq]
    cases hv : sashimiInRange Gen.params v
    · simp [hv]
    · simp only [hv, Bool.not_true, Bool.false_eq_true, ↓reduceIte, ih, List.all_cons, Bool.true_and, List.sum_cons,
        Nat.add_assoc]

theorem sbi_loop2_eq : ∀ (seen : List Bool),
    Gen.spend_by_itself_ok.loop2 seen = if seen.all (fun x => !x) then some () else none := by
  intro seen
  induction seen with
  | nil => simp [Gen.spend_by_itself_ok.loop2]
  | cons x rest ih =>
    rw [Gen.spend_by_itself_ok.loop2]
    cases x <;> simp [ih]

theorem sbi_loop3_eq : ∀ (ins : List (Bool × Bool × Bool)),
    Gen.spend_by_itself_ok.loop3 ins = if ins.all (fun r => !r.1 && r.2.1 && !r.2.2) then some () else none := by
  intro ins
  induction ins with
  | nil => simp [Gen.spend_by_itself_ok.loop3]
  | cons r rest ih =>
    obtain ⟨a, b, c⟩ := r
    rw [Gen.spend_by_itself_ok.loop3]
    cases a <;> cases b <;> cases c <;> simp [ih]

/-- the translated decision, in closed form -/
theorem spend_by_itself_ok_eq (nIn nOut size : Nat) (values : List Nat) (seen : List Bool)
    (ins : List (Bool × Bool × Bool)) :
    Gen.spend_by_itself_ok nIn nOut size values seen ins =
      (decide (nIn ≠ 0) && decide (nOut ≠ 0) && decide (size ≤ Gen.MAX_BLOCK_SIZE) &&
        values.all (fun v => sashimiInRange Gen.params v) && sashimiInRange Gen.params values.sum &&
        seen.all (fun x => !x) && ins.all (fun r => !r.1 && r.2.1 && !r.2.2)) := by
  unfold Gen.spend_by_itself_ok
  simp only [sbi_loop_eq, sbi_loop2_eq, sbi_loop3_eq, validate_sashimi_range_eq, Nat.zero_add]
  cases ha : values.all (fun v => sashimiInRange Gen.params v) <;>
    cases ht : sashimiInRange Gen.params values.sum <;>
    cases hs2 : seen.all (fun x => !x) <;>
    cases hs3 : ins.all (fun r => !r.1 && r.2.1 && !r.2.2) <;>
    by_cases h1 : nIn = 0 <;> by_cases h2 : nOut = 0 <;> by_cases h3 : size ≤ Gen.MAX_BLOCK_SIZE <;>
    simp [h1, h2, h3, ht] <;> omega

/-! ### the model's validator decides as the translated function does -/

/-- for each reference, whether it occurred earlier in the list (or in `acc`) -/
def seenFlags : List OutRef → List OutRef → List Bool
  | _, [] => []
  | acc, r :: rest => acc.any (fun x => decide (x = r)) :: seenFlags (r :: acc) rest

theorem seenFlags_all (l : List OutRef) : ∀ (acc : List OutRef),
    (seenFlags acc l).all (fun x => !x) = true ↔ ((∀ r ∈ l, r ∉ acc) ∧ l.Nodup) := by
  induction l with
  | nil => intro acc; simp [seenFlags]
  | cons r rest ih =>
    intro acc
    have hany : (acc.any (fun x => decide (x = r)) = false) ↔ r ∉ acc := by
      rw [Bool.eq_false_iff]
      simp only [ne_eq, List.any_eq_true, decide_eq_true_eq, not_exists, not_and]
      constructor
      · intro h hr; exact h r hr rfl
      · intro h x hx hxr; exact h (hxr ▸ hx)
    simp only [seenFlags, List.all_cons, Bool.and_eq_true, Bool.not_eq_true', hany, ih,
      List.mem_cons, List.nodup_cons, forall_eq_or_imp]
    constructor
    · rintro ⟨h1, h2, h3⟩
      refine ⟨⟨h1, fun x hx => ?_⟩, ⟨fun hr => ?_, h3⟩⟩
      · intro hxa; exact h2 x hx (Or.inr hxa)
      · exact h2 r hr (Or.inl rfl)
    · rintro ⟨⟨h1, h2⟩, h3, h4⟩
      refine ⟨h1, fun x hx => ?_, h4⟩
      rintro (rfl | hxa)
      · exact h3 hx
      · exact h2 x hx hxa

theorem model_spend_by_itself_as_translated (t : CTx) :
    validateTxByItself Gen.params t = .ok () ↔
      Gen.spend_by_itself_ok t.tx.inputs.length t.tx.outputs.length (encTx t.tx).length
        (t.tx.outputs.map (·.value)) (seenFlags [] (t.tx.inputs.map (·.ref)))
        (t.tx.inputs.map fun i => (decide (i.ref = thinAir), true, !i.sig.isSecp)) = true := by
  rw [spend_by_itself_ok_eq]
  unfold validateTxByItself
  have hmb : Gen.params.maxBlockSize = Gen.MAX_BLOCK_SIZE := rfl
  have hseen := seenFlags_all (t.tx.inputs.map (·.ref)) []
  simp only [List.not_mem_nil, not_false_eq_true, implies_true, true_and] at hseen
  simp only [require_bind_ok, requireRange_bind_ok, require_ok, hmb, outputsValue, Bool.and_eq_true,
    decide_eq_true_eq, List.all_map, Function.comp_def, hseen, Bool.not_not, Bool.and_true]
  constructor
  · rintro ⟨h1, h2, h3, h4, h5, h6, h7, h8⟩
    refine ⟨⟨⟨⟨⟨⟨h1, h2⟩, h3⟩, h4⟩, h5⟩, h6⟩, ?_⟩
    rw [List.all_eq_true] at h7 h8 ⊢
    intro i hi
    have a := h7 i hi
    have b := h8 i hi
    simp only [ne_eq, decide_not, Bool.not_eq_true', decide_eq_false_iff_not] at a
    simp [a, b]
  · rintro ⟨⟨⟨⟨⟨⟨h1, h2⟩, h3⟩, h4⟩, h5⟩, h6⟩, h7⟩
    refine ⟨h1, h2, h3, h4, h5, h6, ?_, ?_⟩
    · rw [List.all_eq_true] at h7 ⊢
      intro i hi
      have := h7 i hi
      simp only [Bool.and_eq_true, Bool.not_eq_true', decide_eq_false_iff_not] at this
      simp [this.1]
    · rw [List.all_eq_true] at h7 ⊢
      intro i hi
      have := h7 i hi
      simp only [Bool.and_eq_true, Bool.not_eq_true', decide_eq_false_iff_not] at this
      exact this.2

end GenTie

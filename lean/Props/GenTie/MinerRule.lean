import Model.Node
import Gen.MinerFoundEffects
import Gen.MinerRequestEffects

/-!
GenTie.MinerRule — `MinerWatcher.handle_scrypt_output_message` (up to the flush; what follows is bookkeeping of the miner's wallet
and statistics), translated from the current source as an effect tree, is the model's `minerFound`: a candidate whose id is not
below target has no effect; otherwise the block is first validated and added to the state the candidate was built on (a failure
escapes and nothing else happens), **then** installed as the served state, broadcast, put into the write buffer and flushed.
-/

set_option linter.unusedSimpArgs false
set_option linter.unusedVariables false

namespace GenTie
open Model

def runMinerEffect (C : Crypto) (b : Block) (added : CoinState) (n : Node) : String → Node
  | "validate_and_add" => n                       -- computes the new chain state; the node is untouched
  | "adopt_validated" => { n with mgr := setCoinstate C n.mgr added true }
  | "broadcast" => n.broadcast (.block b 0)
  | "buffer" => { n with wbuf := n.wbuf ++ [b] }
  | "flush" => Node.flush C n
  | _ => n

def okB3 {α : Type} (x : Except Err α) : Bool := match x with | .ok _ => true | .error _ => false

/-- the refinement, for a candidate whose evidence can be completed -/
theorem model_miner_is_translated_effects (C : Crypto) (n : Node) (cs : CoinState) (s : Summary) (height : Nat)
    (txs : List CTx) (sh : Bytes) (now : Int) (ev : Evidence) (added : CoinState)
    (hev : evidenceAfterScrypt C Gen.params cs sh s height txs = .ok ev)
    (hadd : ∀ cs', addBlock C Gen.params cs (Block.fresh ⟨s, ev⟩ txs) now = .ok cs' → cs' = added) :
    let b := Block.fresh ⟨s, ev⟩ txs
    let eff := Gen.miner_found_effects (!(bytesLt (b.id C) b.target)) (okB3 (addBlock C Gen.params cs b now))
    (minerFound C Gen.params n cs s height txs sh now).1.1 = eff.1.foldl (runMinerEffect C b added) n ∧
    ((minerFound C Gen.params n cs s height txs sh now).1.2.isSome = eff.2) := by
  intro b eff
  unfold minerFound
  simp only [hev, eff, b, Gen.miner_found_effects]
  by_cases hsol : bytesLt ((Block.fresh ⟨s, ev⟩ txs).id C) (Block.fresh ⟨s, ev⟩ txs).target = true
  · simp only [hsol, Bool.not_true, Bool.false_eq_true, ↓reduceIte]
    cases ha : addBlock C Gen.params cs (Block.fresh ⟨s, ev⟩ txs) now with
    | error e => simp [okB3, runMinerEffect]
    | ok cs' =>
      have := hadd cs' ha
      subst this
      simp [okB3, runMinerEffect]
  · have hsol' : bytesLt ((Block.fresh ⟨s, ev⟩ txs).id C) (Block.fresh ⟨s, ev⟩ txs).target = false := by simpa using hsol
    simp [hsol', runMinerEffect]

/-! ### the work request (`handle_request_scrypt_input_message`) -/

/-- what the watcher holds while it serves a work request: the state it last read (`self.coinstate`), the pool it read with
it, the clock value chosen for the candidate -/
structure WatcherSt where
  coinstate : CoinState
  pool : List CTx
  timestamp : Option Nat

def runRequestEffect (served : ChainMgr) (clock : Nat) (w : WatcherSt) : String → WatcherSt
  | "refresh_state" => { w with coinstate := served.coinstate, pool := served.pool }
  | "timestamp_after_current_head" =>
      { w with timestamp := (w.coinstate.head).map fun hd => max clock (hd.timestamp + 1) }
  | _ => w

/-- the statements of the request handler, in this order: the served state is read first, the candidate's timestamp is then taken
from **that** state's head, the candidate is assembled from both, remembered and sent to the miner process -/
theorem miner_request_order :
    Gen.miner_request_effects =
      (["refresh_state", "timestamp_after_current_head", "assemble", "remember_candidate", "send_input"], false) := by
  first | rfl | decide

/-- so the timestamp handed to the assembler is the model's `max clock (head.timestamp + 1)` for the head of the state the
candidate is built on, whatever state the watcher held before the request -/
theorem model_candidate_timestamp_is_translated (served : ChainMgr) (clock : Nat) (w₀ : WatcherSt) (hd : Block)
    (hh : served.coinstate.head = some hd) :
    let w := (Gen.miner_request_effects.1.take 2).foldl (runRequestEffect served clock) w₀
    w.coinstate = served.coinstate ∧ w.pool = served.pool ∧ w.timestamp = some (max clock (hd.timestamp + 1)) := by
  rw [miner_request_order]
  simp [runRequestEffect, hh]

end GenTie

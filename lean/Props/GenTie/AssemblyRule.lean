import Model.Consensus
import Gen.Assembly
import Props.GenTie.Subsidy

/-!
GenTie.AssemblyRule — the assembly of the miner's candidate (`construct_reference_to_thin_air`, `construct_coinbase_transaction`,
`construct_minable_summary` for a state with a head, `construct_block_pow_evidence_input`), regenerated as functions that build
the model's records.

* the reward transaction has one input (the reference to thin air, carrying the height and the given data) and one output, of
  `get_block_subsidy(height) + fees` to the miner's key;
* the summary has height `head height + 1`, the head as its parent, the commitment to *the list that starts with that reward
  transaction and continues with the other transactions*, the given time, the target for that height and time, the nonce;
* the model's `constructCoinbase` / `constructEvidenceInput` (on which C12's theorems rest) are these functions with the
  model's fees, commitment and target plugged in.
-/

namespace GenTie.Assembly
open Model Gen

theorem thin_air_eq : construct_reference_to_thin_air = thinAir := rfl

/-- C12: the reward pays exactly subsidy(height) + fees, in one output, to the miner's key -/
theorem coinbase_closed_form (height : Nat) (fees : Int) (data pk : Bytes) :
    construct_coinbase_transaction height fees data pk =
      ⟨[⟨thinAir, .coinbase height data⟩], [⟨((get_block_subsidy height : Int) + fees).toNat, pk⟩]⟩ := by
  first
  | rfl
  | (simp [construct_coinbase_transaction, construct_reference_to_thin_air, thinAir, Int.add_comm]; done)
  | (simp only [construct_coinbase_transaction, construct_reference_to_thin_air, thinAir]; congr 4; omega)

theorem summary_closed_form {α : Type} (merkle : List α → Bytes) (ct : Nat → Nat → Bytes) (hh : Nat) (cur : Bytes)
    (txs : List α) (ts nonce : Nat) :
    construct_minable_summary merkle ct hh cur txs ts nonce = ⟨hh + 1, cur, merkle txs, ts, ct (hh + 1) ts, nonce⟩ := by
  first
  | rfl
  | (simp [construct_minable_summary, Nat.add_comm]; done)

theorem evidence_input_closed_form {α : Type} (fresh : Tx → α) (merkle : List α → Bytes) (ct : Nat → Nat → Bytes) (fees : Int)
    (hh : Nat) (cur : Bytes) (others : List α) (pk : Bytes) (ts : Nat) (data : Bytes) (nonce : Nat) :
    construct_block_pow_evidence_input fresh merkle ct fees hh cur others pk ts data nonce =
      (⟨hh + 1, cur, merkle (fresh (construct_coinbase_transaction (hh + 1) fees data pk) :: others), ts, ct (hh + 1) ts, nonce⟩,
       hh + 1, fresh (construct_coinbase_transaction (hh + 1) fees data pk) :: others) := by
  first
  | rfl
  | (simp [construct_block_pow_evidence_input, summary_closed_form, Nat.add_comm]; done)

/-- the model's reward transaction is the translated one on the model's fees -/
theorem model_coinbase_as_translated (height : Nat) (others : List CTx) (u : Utxo) (data pk : Bytes) :
    constructCoinbase Gen.params height others u data pk =
      (blockFees u others).map fun fees => CTx.fresh (construct_coinbase_transaction height fees data pk) := by
  unfold constructCoinbase
  cases blockFees u others with
  | error e => rfl
  | ok fees =>
    simp only [Except.map, coinbase_closed_form, GenTie.get_block_subsidy_eq]
    rfl

/-- the model's candidate is the translated one, with the model's fees, commitment and target plugged in -/
theorem model_evidence_input_as_translated (C : Crypto) (cs : CoinState) (pool : List CTx) (pk : Bytes) (ts : Nat)
    (data : Bytes) (nonce : Nat) (hd : Block) (cur : Bytes) (u : Utxo) (fees : Int) (root target : Bytes)
    (hhead : cs.head = some hd) (hcur : cs.current = some cur) (hu : cs.utxoAt.get? cur = some u)
    (hfees : blockFees u pool = .ok fees)
    (hroot : calcMerkleRoot C (CTx.fresh (construct_coinbase_transaction (hd.height + 1) fees data pk) :: pool) = some root)
    (htarget : calcTarget C Gen.params cs (hd.height + 1) ts hd = .ok target) :
    constructEvidenceInput C Gen.params cs pool pk ts data nonce =
      .ok (construct_block_pow_evidence_input CTx.fresh (fun _ => root) (fun _ _ => target) fees hd.height cur pool pk ts data nonce) := by
  unfold constructEvidenceInput
  simp only [hhead, hcur, hu, model_coinbase_as_translated, hfees, Except.map, bind, Except.bind, hroot, htarget, pure, Except.pure,
    evidence_input_closed_form]

end GenTie.Assembly

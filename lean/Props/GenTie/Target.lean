import Gen.CalculateNewTarget
import Gen.SelectBlockHeight

namespace GenTie

theorem calculate_new_target_eq (prev : Model.Bytes) (t : Nat) :
    Gen.calculate_new_target prev t = Model.newTarget Gen.params prev t := by
  first
  | rfl
  | (simp [Gen.calculate_new_target, Model.newTarget, Model.newTargetNat, Gen.params]; done)
  | (unfold Gen.calculate_new_target Model.newTarget Model.newTargetNat; simp only [Gen.params];
     congr 1; split <;> split <;> simp_all <;> omega)
  | grind [Gen.calculate_new_target, Model.newTarget, Model.newTargetNat, Gen.params]

theorem select_block_height_eq (h : Model.Bytes) (n : Nat) :
    Gen.select_block_height h n = Model.selectBlockHeight h n := by
  first
  | rfl
  | (simp [Gen.select_block_height, Model.selectBlockHeight]; done)
  | grind [Gen.select_block_height, Model.selectBlockHeight]

end GenTie

import Model.Consensus
import Gen.Evidence
import Props.GenTie.Params

/-!
GenTie.EvidenceRule — the proof-of-work evidence (`construct_summary_hash`, `construct_pow_evidence_after_scrypt`,
`construct_pow_evidence`), regenerated into the model's record: the summary hash is scrypt of the serialised summary salted with
the height; the chain sample is zeros for a block of height 0 and otherwise the slices selected by the summary hash from the
blocks on the chain of the summary's parent; the block hash is blake2 over summary hash, sample and the serialised transactions
— and `construct_pow_evidence` recomputes the summary hash from the summary (it does not take it from anywhere else).

The model's `evidenceAfterScrypt` / `constructEvidence` (the evidence rule of C05 compares a block's evidence with them) are
these functions with the model's sampler, blake2 and list encoder plugged in.
-/

namespace GenTie.Evidence
open Model Gen

theorem sample_size_eq : Gen.params.sampleCount * Gen.params.sampleSize = Gen.CHAIN_SAMPLE_TOTAL_SIZE := by decide

theorem after_scrypt_closed_form {α : Type} (select : Bytes → Nat → Bytes) (blake2 : Bytes → Bytes) (ser : List α → Bytes)
    (sh : Bytes) (h : Nat) (txs : List α) :
    construct_pow_evidence_after_scrypt select blake2 ser sh h txs =
      let sample := if h = 0 then zeros Gen.CHAIN_SAMPLE_TOTAL_SIZE else select sh h
      ⟨sh, sample, blake2 (sh ++ sample ++ ser txs)⟩ := by
  by_cases hh : h = 0 <;> simp [construct_pow_evidence_after_scrypt, hh]

/-- the summary hash inside the evidence is recomputed from the summary and the height -/
theorem evidence_recomputes_summary_hash {α : Type} (scrypt : Bytes → Bytes → Bytes) (select : Bytes → Nat → Bytes)
    (blake2 : Bytes → Bytes) (ser : List α → Bytes) (sb : Bytes) (h : Nat) (txs : List α) :
    (construct_pow_evidence scrypt select blake2 ser sb h txs).summaryHash = scrypt sb (natToBytes 8 h) := by
  simp [construct_pow_evidence, construct_summary_hash, after_scrypt_closed_form]

variable (C : Crypto)

/-- the model's evidence after scrypt is the translated one on the model's sampler -/
theorem model_after_scrypt_as_translated (cs : CoinState) (sh : Bytes) (s : Summary) (height : Nat) (txs : List CTx)
    (select : Bytes → Nat → Bytes)
    (hsel : height ≠ 0 →
      selectSlices C (fun h => (cs.byHeightAt.get? s.prev).bind (·.get? h)) height Gen.params.sampleSize Gen.params.sampleCount sh
        = .ok (select sh height)) :
    evidenceAfterScrypt C Gen.params cs sh s height txs =
      .ok (construct_pow_evidence_after_scrypt select C.blake2 encTxList sh height txs) := by
  unfold evidenceAfterScrypt chainSample
  by_cases hh : height = 0
  · simp [hh, after_scrypt_closed_form, sample_size_eq]
  · simp [hh, hsel hh, after_scrypt_closed_form]

/-- … and when the sampler fails (a sampled height is not stored), so does the model's construction -/
theorem model_after_scrypt_error (cs : CoinState) (sh : Bytes) (s : Summary) (height : Nat) (txs : List CTx) (e : Err)
    (hh : height ≠ 0)
    (hsel : selectSlices C (fun h => (cs.byHeightAt.get? s.prev).bind (·.get? h)) height Gen.params.sampleSize
      Gen.params.sampleCount sh = .error e) :
    evidenceAfterScrypt C Gen.params cs sh s height txs = .error e := by
  unfold evidenceAfterScrypt chainSample
  simp [hh, hsel]

/-- the model's `constructEvidence` is the translated `construct_pow_evidence` -/
theorem model_construct_evidence_as_translated (cs : CoinState) (s : Summary) (height : Nat) (txs : List CTx)
    (select : Bytes → Nat → Bytes)
    (hsel : height ≠ 0 →
      selectSlices C (fun h => (cs.byHeightAt.get? s.prev).bind (·.get? h)) height Gen.params.sampleSize Gen.params.sampleCount
        (summaryHash C s height) = .ok (select (summaryHash C s height) height)) :
    constructEvidence C Gen.params cs s height txs =
      .ok (construct_pow_evidence C.scrypt select C.blake2 encTxList (encSummary s) height txs) := by
  unfold constructEvidence
  rw [model_after_scrypt_as_translated C cs _ s height txs select hsel]
  rfl

end GenTie.Evidence

import Props.GenTie.Order
import Gen.FlushEffects

/-!
GenTie.OrderRules — statements about the handlers **as translated**, with no model in between: for every value of the atoms the
effect tree reads, what may happen before what. They are what the corresponding properties say about the order of the code's own
statements (C09, C12, C13, C08), and they are robust: a rewrite that keeps the order re-proves them by the same case analysis.
-/

namespace GenTie

/-- C08: the buffer is emptied only after the write of the whole buffer, inside the lock -/
theorem flush_orders (buffer_nonempty : Bool) :
    let e := (Gen.flush_effects buffer_nonempty).1
    ("clear_buffer" ∈ e → precededBy e "clear_buffer" ["acquire", "write_whole_buffer"] = true ∧
      precededBy e "release" ["clear_buffer"] = true) := by
  cases buffer_nonempty <;> decide

end GenTie

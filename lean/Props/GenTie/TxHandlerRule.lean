import Model.Node
import Gen.HandleTxEffects

/-!
GenTie.TxHandlerRule — `ConnectedRemotePeer.handle_transaction_received`, translated from the current source as an effect tree, is
the model's `handleTxReceived`: a transaction that is already pending is ignored (not relayed again); otherwise it is offered to
the pool and relayed to the greeted peers exactly when the pool admitted it.
-/

set_option linter.unusedSimpArgs false
set_option linter.unusedVariables false

namespace GenTie
open Model

def runTxEffect (t : CTx) (n : Node) : String → Node
  | "broadcast" => n.broadcast (.tx t)
  | _ => n

/-- the refinement, for a submission on which the pool's validation does not raise past the handler -/
theorem model_tx_handler_is_translated_effects (C : Crypto) (n : Node) (t : CTx) (m' : ChainMgr) (admitted : Bool)
    (hpool : ¬ n.mgr.pool.any (fun x => x.tx = t.tx) = true → addTxToPool C Gen.params n.mgr t = .ok (m', admitted)) :
    let pending := n.mgr.pool.any (fun x => x.tx = t.tx)
    let eff := Gen.handle_tx_effects pending admitted
    (handleTxReceived C Gen.params n t).1 =
      eff.1.foldl (runTxEffect t) (if pending then n else { n with mgr := m' }) ∧
    (handleTxReceived C Gen.params n t).2 = none ∧ eff.2 = false := by
  intro pending eff
  unfold handleTxReceived
  simp only [eff, pending, Gen.handle_tx_effects]
  by_cases hp : n.mgr.pool.any (fun x => x.tx = t.tx) = true
  · simp [hp]
  · have hp' : n.mgr.pool.any (fun x => x.tx = t.tx) = false := by simpa using hp
    have := hpool hp
    cases admitted <;> simp [hp', this, runTxEffect]

end GenTie

import Model.Consensus
import Gen.SeenScans

/-!
GenTie.DupScanRule — the two scans with a `seen` set (`validate_no_duplicate_transactions`,
`validate_no_duplicate_output_references_in_transactions`), regenerated as folds whose state is the set seen so far and `none`
once the `raise` was reached.

* each returns normally exactly when the keys it scans — the transactions; the output references of all inputs of all
  transactions, across transactions — are pairwise distinct;
* the model's two rules (in `validateBlockByItself` and in `addTxToPool`) are these functions on the model's keys.
-/

namespace GenTie.DupScan
open Model Gen

theorem fold_none {α : Type} [DecidableEq α] (l : List α) : l.foldl seen_step none = none := by
  induction l with
  | nil => rfl
  | cons x xs ih => simpa [List.foldl_cons, seen_step] using ih

theorem fold_some {α : Type} [DecidableEq α] (l s : List α) :
    l.foldl seen_step (some s) = if l.Nodup ∧ (∀ x ∈ l, x ∉ s) then some (l.reverse ++ s) else none := by
  induction l generalizing s with
  | nil => simp
  | cons x xs ih =>
    simp only [List.foldl_cons, seen_step]
    by_cases hx : x ∈ s
    · simp [hx, fold_none]
    · simp only [hx, ↓reduceIte, ih]
      by_cases h1 : xs.Nodup ∧ ∀ y ∈ xs, y ∉ x :: s
      · have : (x :: xs).Nodup ∧ ∀ y ∈ x :: xs, y ∉ s := by
          refine ⟨List.nodup_cons.mpr ⟨fun hm => (h1.2 x hm) (List.mem_cons_self ..), h1.1⟩, ?_⟩
          intro y hy
          rcases List.mem_cons.mp hy with rfl | hy
          · exact hx
          · exact fun hs => h1.2 y hy (List.mem_cons_of_mem _ hs)
        rw [if_pos h1, if_pos this, List.reverse_cons, List.append_assoc, List.singleton_append]
      · have : ¬ ((x :: xs).Nodup ∧ ∀ y ∈ x :: xs, y ∉ s) := by
          intro ⟨hn, hd⟩
          apply h1
          refine ⟨(List.nodup_cons.mp hn).2, ?_⟩
          intro y hy hm
          rcases List.mem_cons.mp hm with rfl | hm
          · exact (List.nodup_cons.mp hn).1 hy
          · exact hd y (List.mem_cons_of_mem _ hy) hm
        rw [if_neg h1, if_neg this]

/-- `validate_no_duplicate_transactions` returns normally exactly when no transaction occurs twice -/
theorem no_duplicate_transactions_eq {α : Type} [DecidableEq α] (l : List α) :
    no_duplicate_transactions l = decide l.Nodup := by
  unfold no_duplicate_transactions
  rw [fold_some]
  by_cases h : l.Nodup <;> simp [h]

theorem fold_fold {α : Type} [DecidableEq α] (ls : List (List α)) (st : Option (List α)) :
    ls.foldl (fun seen inputs => inputs.foldl seen_step seen) st = ls.flatten.foldl seen_step st := by
  induction ls generalizing st with
  | nil => rfl
  | cons l ls ih => simp [List.foldl_cons, ih, List.foldl_append]

/-- `validate_no_duplicate_output_references_in_transactions` returns normally exactly when no output reference occurs twice
among all inputs of all the transactions -/
theorem no_duplicate_output_references_eq {α : Type} [DecidableEq α] (ls : List (List α)) :
    no_duplicate_output_references ls = decide ls.flatten.Nodup := by
  unfold no_duplicate_output_references
  rw [fold_fold, fold_some]
  by_cases h : ls.flatten.Nodup <;> simp [h]

theorem raised_classes :
    no_duplicate_transactions_raises = "ValidateTransactionError" ∧
    no_duplicate_output_references_raises = "ValidateTransactionError" := by decide

/-- the model's rule on output references (block validation, and admission to the pool) is the translated scan -/
theorem model_refs_rule (txs : List CTx) :
    decide (allRefs txs).Nodup = no_duplicate_output_references (txs.map fun t => t.tx.inputs.map (·.ref)) := by
  rw [no_duplicate_output_references_eq]
  apply decide_eq_decide.mpr
  simp [allRefs, List.flatMap]

/-- the model's rule on repeated transactions is the translated scan on the keys Python compares (`Transaction.__eq__` after
the hash) -/
theorem model_dup_tx_rule (C : Crypto) (txs : List CTx) :
    noDuplicateTxs C txs = no_duplicate_transactions (txs.map fun t => (t.id C, t.tx)) := by
  rw [no_duplicate_transactions_eq]
  induction txs with
  | nil => rfl
  | cons t rest ih =>
    rw [Bool.eq_iff_iff]
    simp only [noDuplicateTxs, ih, Bool.and_eq_true, Bool.not_eq_true', List.map_cons, decide_eq_true_eq, List.nodup_cons,
      List.mem_map, Prod.mk.injEq]
    constructor
    · rintro ⟨h1, h2⟩
      refine ⟨?_, h2⟩
      rintro ⟨a, ha, e1, e2⟩
      have : (rest.any fun t' => decide (t'.id C = t.id C ∧ t'.tx = t.tx)) = true :=
        List.any_eq_true.mpr ⟨a, ha, by simp [e1, e2]⟩
      rw [this] at h1
      exact absurd h1 (by decide)
    · rintro ⟨h1, h2⟩
      refine ⟨?_, h2⟩
      cases hany : (rest.any fun t' => decide (t'.id C = t.id C ∧ t'.tx = t.tx)) with
      | false => rfl
      | true =>
        obtain ⟨a, ha, hp⟩ := List.any_eq_true.mp hany
        simp only [decide_eq_true_eq] at hp
        exact absurd ⟨a, ha, hp.1, hp.2⟩ h1

end GenTie.DupScan

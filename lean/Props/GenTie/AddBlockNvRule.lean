import Model.Ledger
import Proofs.Map
import Gen.AddBlockNv
import Gen.HeadSwitches
import Props.GenTie.Head

/-!
GenTie.AddBlockNvRule — `CoinState.add_block_no_validation`, translated from the current source statement by statement as a program
over the model's maps (look-ups are partial, `.set` returns a new map, the tips map is threaded through the `with
self.heads.mutate()` block: the parent leaves the tips exactly when it is one, the new block enters), is the model's
`addBlockNoValidation` (results compared up to the text of an error). The statement that chooses the new head is the parameter
`choose`; instantiated with the translated `Gen.head_switches` it is the model's choice.
-/

set_option linter.unusedSimpArgs false
set_option linter.unusedVariables false

namespace GenTie
open Model

def okOf' {α : Type} (x : Except Err α) : Option α := match x with | .ok a => some a | .error _ => none

/-- the head-choice statement with the translated decision `Gen.head_switches` -/
def chooseTranslated (C : Crypto) (cs : CoinState) (id : Bytes) (b : Block) : Except Err Bytes :=
  match cs.current with
  | none => pure (if Gen.head_switches true false b.height b.target 0 [] then id else id)
  | some c =>
    if c = b.prev then pure (if Gen.head_switches false true b.height b.target 0 [] then id else c)
    else match cs.blocks.get? c with
      | none => throw (.key "current head")
      | some cb => pure (if Gen.head_switches false false b.height b.target cb.height cb.target then id else c)

theorem add_block_no_validation_eq (C : Crypto) (cs : CoinState) (b : Block) :
    okOf' (Gen.add_block_no_validation C (chooseTranslated C) cs b) = okOf' (addBlockNoValidation C cs b) := by
  unfold Gen.add_block_no_validation addBlockNoValidation chooseTranslated
  simp only [head_switches_eq, bind, Except.bind, pure, Except.pure, throw, throwThe, MonadExceptOf.throw]
  by_cases hg : b.prev = zeros 32
  · simp only [hg, decide_true, ↓reduceIte]
    cases hu : utoApplyBlock C [] b with
    | error e => simp [okOf']
    | ok u =>
      cases hh : cs.heads.contains (zeros 32) <;> cases hcur : cs.current with
      | none => simp [okOf', hh, hcur]
      | some c =>
        by_cases hc : c = zeros 32
        · simp [okOf', hh, hcur, hc]
        · cases hb : cs.blocks.get? c <;> simp [okOf', hh, hcur, hc, hb]
  · simp only [hg, decide_false, Bool.false_eq_true, ↓reduceIte]
    cases hl : cs.utxoAt.get? b.prev with
    | none => simp [okOf']
    | some u₀ =>
      simp only []
      cases hu : utoApplyBlock C u₀ b with
      | error e => simp [okOf']
      | ok u =>
        simp only []
        cases hbh : cs.byHeightAt.get? b.prev with
        | none => simp [okOf']
        | some bh =>
          cases hh : cs.heads.contains b.prev <;> cases hcur : cs.current with
          | none => simp [okOf', hh, hcur]
          | some c =>
            by_cases hc : c = b.prev
            · simp [okOf', hh, hcur, hc]
            · cases hb : cs.blocks.get? c <;> simp [okOf', hh, hcur, hc, hb]

end GenTie

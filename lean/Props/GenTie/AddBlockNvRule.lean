import Model.Ledger
import Proofs.Map
import Gen.AddBlockNv
import Gen.HeadSwitches
import Model.Spec
import Props.GenTie.Head

/-!
GenTie.AddBlockNvRule — `CoinState.add_block_no_validation`, translated from the current source statement by statement as a program
over the model's maps (look-ups are partial, `.set` returns a new map, the tips map is threaded through the `with
self.heads.mutate()` block: the parent leaves the tips exactly when it is one, the new block enters), is the model's
`addBlockNoValidation` (results compared up to the text of an error). The statement that chooses the new head is the parameter
`choose`; instantiated with the translated `Gen.head_switches` it is the model's choice.
-/

set_option linter.unusedSimpArgs false
set_option linter.unusedVariables false

namespace GenTie
open Model

def okOf' {α : Type} (x : Except Err α) : Option α := match x with | .ok a => some a | .error _ => none

/-- the head-choice statement with the translated decision `Gen.head_switches` -/
def chooseTranslated (C : Crypto) (cs : CoinState) (id : Bytes) (b : Block) : Except Err Bytes :=
  match cs.current with
  | none => pure (if Gen.head_switches true false b.height b.target 0 [] then id else id)
  | some c =>
    if c = b.prev then pure (if Gen.head_switches false true b.height b.target 0 [] then id else c)
    else match cs.blocks.get? c with
      | none => throw (.key "current head")
      | some cb => pure (if Gen.head_switches false false b.height b.target cb.height cb.target then id else c)

theorem add_block_no_validation_eq (C : Crypto) (cs : CoinState) (b : Block) :
    okOf' (Gen.add_block_no_validation C (chooseTranslated C) cs b) = okOf' (addBlockNoValidation C cs b) := by
  unfold Gen.add_block_no_validation addBlockNoValidation chooseTranslated
  simp only [head_switches_eq, bind, Except.bind, pure, Except.pure, throw, throwThe, MonadExceptOf.throw]
  by_cases hg : b.prev = zeros 32
  · simp only [hg, decide_true, ↓reduceIte]
    cases hu : utoApplyBlock C [] b with
    | error e => simp [okOf']
    | ok u =>
      cases hh : cs.heads.contains (zeros 32) <;> cases hcur : cs.current with
      | none => simp [okOf', hh, hcur]
      | some c =>
        by_cases hc : c = zeros 32
        · simp [okOf', hh, hcur, hc]
        · cases hb : cs.blocks.get? c <;> simp [okOf', hh, hcur, hc, hb]
  · simp only [hg, decide_false, Bool.false_eq_true, ↓reduceIte]
    cases hl : cs.utxoAt.get? b.prev with
    | none => simp [okOf']
    | some u₀ =>
      simp only []
      cases hu : utoApplyBlock C u₀ b with
      | error e => simp [okOf']
      | ok u =>
        simp only []
        cases hbh : cs.byHeightAt.get? b.prev with
        | none => simp [okOf']
        | some bh =>
          cases hh : cs.heads.contains b.prev <;> cases hcur : cs.current with
          | none => simp [okOf', hh, hcur]
          | some c =>
            by_cases hc : c = b.prev
            · simp [okOf', hh, hcur, hc]
            · cases hb : cs.blocks.get? c <;> simp [okOf', hh, hcur, hc, hb]

/-- a whole arrival history folded with the translated update -/
def foldTranslated (C : Crypto) : CoinState → List Block → Except Err CoinState
  | cs, [] => .ok cs
  | cs, b :: rest =>
    match Gen.add_block_no_validation C (chooseTranslated C) cs b with
    | .error e => .error e
    | .ok cs' => foldTranslated C cs' rest

/-- … is the model's `foldBlocks`: every theorem of C03 / C04 / C10 about states built by `foldBlocks` from an arrival history is
a theorem about the states the code's own update builds from it -/
theorem foldTranslated_eq (C : Crypto) (bs : List Block) : ∀ cs : CoinState,
    okOf' (foldTranslated C cs bs) = okOf' (foldBlocks C cs bs) := by
  induction bs with
  | nil => intro cs; rfl
  | cons b rest ih =>
    intro cs
    have h := add_block_no_validation_eq C cs b
    simp only [foldTranslated, foldBlocks]
    cases h1 : Gen.add_block_no_validation C (chooseTranslated C) cs b with
    | error e =>
      cases h2 : addBlockNoValidation C cs b with
      | error e' => simp [okOf']
      | ok s' => simp [h1, h2, okOf'] at h
    | ok s =>
      cases h2 : addBlockNoValidation C cs b with
      | error e' => simp [h1, h2, okOf'] at h
      | ok s' =>
        simp only [h1, h2, okOf', Option.some.injEq] at h
        subst h
        exact ih s

end GenTie

import Model.Node
import Gen.PoolCleanup

/-!
GenTie.PoolCleanupRule — `ChainManager._cleanup_transaction_pool_for_coinstate`, regenerated: the nested `is_valid` (a `try` around
the in-state validation at the manager's own head, whose only handler turns a `ValidateTransactionError` into `False`) and the
comprehension that re-assigns the pool as the selection, in order, of the transactions for which it returns `True`.

* `is_valid` keeps a transaction exactly when its validation at the head returns, drops it exactly on a
  `ValidateTransactionError`, and lets every other exception out;
* the model's `cleanupPool` (C13's theorems are about it) is that selection whenever no validation ends with another exception —
  the model's totalisation ("another exception evicts") is confined to the case in which the Python does not return at all, and
  that case is characterised;
* the validation is made at the manager's own state (`self.coinstate`), which `set_coinstate` has assigned before the clean-up
  (`GenTie.PoolRule`).
-/

namespace GenTie.PoolCleanup
open Model Gen

theorem is_valid_closed_form (v : ValEnd) :
    pool_is_valid true v = (match v with | .returns => some true | .validateTransactionError => some false | .otherError => none) ∧
    pool_is_valid false v = none := by
  cases v <;> exact ⟨rfl, rfl⟩

theorem reads_own_state : pool_cleanup_reads = "self.coinstate" := by decide

variable (C : Crypto)

/-- how the model's validation of a pending transaction at the head ends, in the translated function's terms -/
def endOf (cs : CoinState) (t : CTx) : ValEnd :=
  match validateTxAtHead C cs t with
  | .ok _ => .returns
  | .error (.validation _) => .validateTransactionError
  | .error _ => .otherError

def select (pool : List CTx) (keep : List Bool) : List CTx := ((pool.zip keep).filter (·.2)).map (·.1)

theorem cleanup_cons (cs : CoinState) (t : CTx) (ts : List CTx) :
    pool_cleanup true ((t :: ts).map (endOf C cs)) =
      match pool_is_valid true (endOf C cs t) with
      | none => none
      | some b => match pool_cleanup true (ts.map (endOf C cs)) with
        | none => none
        | some bs => some (b :: bs) := by
  simp only [pool_cleanup, List.map_cons, List.mapM_cons]
  cases pool_is_valid true (endOf C cs t) with
  | none => rfl
  | some b =>
    cases List.mapM (pool_is_valid true) (ts.map (endOf C cs)) with
    | none => rfl
    | some bs => rfl

/-- an exception leaves the clean-up exactly when some pending transaction's validation ends with something else than a
`ValidateTransactionError` -/
theorem cleanup_escapes_iff (cs : CoinState) (pool : List CTx) :
    pool_cleanup true (pool.map (endOf C cs)) = none ↔ ∃ t ∈ pool, endOf C cs t = .otherError := by
  induction pool with
  | nil => simp [pool_cleanup]
  | cons t ts ih =>
    rw [cleanup_cons]
    cases hv : endOf C cs t <;> simp only [(is_valid_closed_form _).1, List.mem_cons, exists_eq_or_imp, hv]
    · cases hr : pool_cleanup true (ts.map (endOf C cs)) with
      | none => simpa [hr] using ih
      | some bs => simp [hr] at ih ⊢; exact ih
    · cases hr : pool_cleanup true (ts.map (endOf C cs)) with
      | none => simpa [hr] using ih
      | some bs => simp [hr] at ih ⊢; exact ih
    · simp

/-- … and keeps exactly the transactions whose validation at the new head returns, in their old order -/
theorem translated_selection_is_validity_filter (cs : CoinState) (pool : List CTx) (keep : List Bool)
    (h : pool_cleanup true (pool.map (endOf C cs)) = some keep) :
    select pool keep = pool.filter (fun t => decide (endOf C cs t = .returns)) := by
  induction pool generalizing keep with
  | nil => simp [select]
  | cons t ts ih =>
    rw [cleanup_cons] at h
    cases hv : endOf C cs t <;> simp only [(is_valid_closed_form _).1, hv] at h
    · cases hr : pool_cleanup true (ts.map (endOf C cs)) with
      | none => simp [hr] at h
      | some bs =>
        simp only [hr, Option.some.injEq] at h
        subst h
        simp [select, List.filter_cons, hv]
        simpa [select] using ih bs hr
    · cases hr : pool_cleanup true (ts.map (endOf C cs)) with
      | none => simp [hr] at h
      | some bs =>
        simp only [hr, Option.some.injEq] at h
        subst h
        simp [select, List.filter_cons, hv]
        simpa [select] using ih bs hr
    · simp at h

theorem model_cleanup_is_validity_filter (cs : CoinState) (pool : List CTx) :
    cleanupPool C cs pool = pool.filter (fun t => decide (endOf C cs t = .returns)) := by
  unfold cleanupPool
  apply List.filter_congr
  intro t _
  unfold endOf
  cases validateTxAtHead C cs t with
  | ok u => simp
  | error e => cases e <;> simp

/-- otherwise the model's clean-up is the translated selection -/
theorem model_cleanup_as_translated (cs : CoinState) (pool : List CTx) (keep : List Bool)
    (h : pool_cleanup true (pool.map (endOf C cs)) = some keep) :
    cleanupPool C cs pool = select pool keep := by
  rw [model_cleanup_is_validity_filter, translated_selection_is_validity_filter C cs pool keep h]

end GenTie.PoolCleanup

import Proofs.Validation
import Gen.BlockInStateOk

/-!
GenTie.BlockRule — the decision of `validate_block_in_coinstate`, translated from the current source over declared atoms, is
the model's: at or below the checkpoint horizon (`height ≤ MAX_KNOWN_HASH_HEIGHT`, **inclusive**) only the checkpoint
comparison decides and nothing else is looked at; above it the summary rules, the evidence comparison, the reward rule and
the rules of **every** other transaction decide, in that order.
-/

set_option linter.unusedSimpArgs false
set_option linter.unusedVariables false

namespace GenTie
open Model

theorem block_loop_eq : ∀ (others : List Bool),
    Gen.block_in_state_ok.loop others = if others.all id then some () else none := by
  intro others
  induction others with
  | nil => simp [Gen.block_in_state_ok.loop]
  | cons x rest ih =>
    rw [Gen.block_in_state_ok.loop]
    cases x <;> simp [ih]

/-- the translated decision, in closed form -/
theorem block_in_state_ok_eq (h : Nat) (inTable idDiffers summaryOk evDiffers cbOk : Bool) (others : List Bool) :
    Gen.block_in_state_ok h inTable idDiffers summaryOk evDiffers cbOk others =
      if h ≤ Gen.MAX_KNOWN_HASH_HEIGHT then !(inTable && idDiffers)
      else (summaryOk && !evDiffers && cbOk && others.all id) := by
  unfold Gen.block_in_state_ok
  simp only [block_loop_eq]
  by_cases hh : h ≤ Gen.MAX_KNOWN_HASH_HEIGHT
  · simp only [hh, decide_true, ↓reduceIte]
    cases inTable <;> cases idDiffers <;> simp
  · simp only [hh, decide_false, Bool.false_eq_true, ↓reduceIte]
    generalize others.all id = a
    cases summaryOk <;> cases evDiffers <;> cases cbOk <;> cases a <;> rfl

/-- at the horizon itself the checkpoint still decides -/
theorem horizon_is_inclusive (inTable idDiffers summaryOk evDiffers cbOk : Bool) (others : List Bool) :
    Gen.block_in_state_ok Gen.MAX_KNOWN_HASH_HEIGHT inTable idDiffers summaryOk evDiffers cbOk others =
      !(inTable && idDiffers) := by
  rw [block_in_state_ok_eq]; simp

/-! ### the model's validator decides as the translated function does -/

def okB {α : Type} (x : Except Err α) : Bool := match x with | .ok _ => true | .error _ => false

theorem model_block_in_state_as_translated (C : Crypto) (cs : CoinState) (b : Block) (ev : Evidence) (cb : CTx)
    (rest : List CTx) (u : Utxo)
    (hev : constructEvidence C Gen.params cs b.header.summary b.height b.txs = .ok ev)
    (htx : b.txs = cb :: rest) (hu : cs.utxoAt.get? b.prev = some u) :
    validateBlockInState C Gen.params cs b = .ok () ↔
      Gen.block_in_state_ok b.height (Gen.params.knownHashes.lookup b.height).isSome
        (match Gen.params.knownHashes.lookup b.height with | some h => decide (b.id C ≠ h) | none => false)
        (okB (validateSummaryInState C Gen.params cs b.header.summary))
        (decide (b.header.evidence ≠ ev))
        (okB (validateCoinbaseInState Gen.params cs cb b))
        (rest.map fun t => okB (validateTxInState C u t)) = true := by
  rw [block_in_state_ok_eq]
  unfold validateBlockInState
  rw [htx] at hev
  have hmax : (Gen.params.maxKnownHeight : Int) = (Gen.MAX_KNOWN_HASH_HEIGHT : Int) := rfl
  by_cases hh : b.height ≤ Gen.MAX_KNOWN_HASH_HEIGHT
  · have hh' : (b.height : Int) ≤ Gen.params.maxKnownHeight := by rw [hmax]; omega
    simp only [hh, hh', ↓reduceIte]
    cases hl : Gen.params.knownHashes.lookup b.height with
    | none => simp [ok]
    | some h => simp
  · have hh' : ¬ (b.height : Int) ≤ Gen.params.maxKnownHeight := by rw [hmax]; omega
    simp only [hh, hh', ↓reduceIte, hev, htx, hu]
    cases hs : validateSummaryInState C Gen.params cs b.header.summary with
    | error e => simp [okB, bind, Except.bind]
    | ok _ =>
      simp only [okB, bind, Except.bind, Bool.true_and]
      by_cases he : b.header.evidence = ev
      · simp only [he, require, decide_true, ↓reduceIte, ne_eq, not_true_eq_false, decide_false, Bool.not_false,
          Bool.true_and]
        cases hc : validateCoinbaseInState Gen.params cs cb b with
        | error e => simp
        | ok _ =>
          simp only [Bool.true_and]
          rw [forAll_ok]
          simp only [List.all_map, List.all_eq_true, Function.comp, id]
          constructor
          · intro h t ht
            simp [h t ht]
          · intro h t ht
            have := h t ht
            cases hv : validateTxInState C u t with
            | error e => simp [hv] at this
            | ok _ => rfl
      · simp [he, require]

end GenTie

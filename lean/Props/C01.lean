import Model.Spec
import Proofs.Validation
import Proofs.Types

/-!
# C01 — no unauthorised or double spending in any fully validated block

`addBlock C P cs b now = .ok cs'` is `CoinState.add_block` returning normally; "above the
checkpoint horizon" is `P.maxKnownHeight < b.height`. `u` is the unspent-output map of the
block's *parent*; `cb :: rest` are the reward transaction and the others.
-/

namespace Model
namespace C01

variable (C : Crypto) (P : Params)

/-- every non-reward transaction of an accepted block spends only outputs that exist and are
unspent in the ledger state of the block's parent, each with a signature of the secp256k1
kind that verifies under the spent output's public key over the transaction with its
signatures blanked -/
theorem accepted_spends_exist_and_are_signed (cs cs' : CoinState) (b : Block) (now : Int)
    (h : addBlock C P cs b now = .ok cs') (hz : P.maxKnownHeight < b.height) :
    ∃ u cb rest, cs.utxoAt.get? b.prev = some u ∧ b.txs = cb :: rest ∧
      ∀ t ∈ rest, ∀ i ∈ t.tx.inputs, ∃ o s, u.get? i.ref = some o ∧ i.sig = .secp s ∧
        C.verify o.pk (encTx (signable t.tx)) s = true := by
  obtain ⟨_, h2, _⟩ := addBlock_ok C P cs cs' b now h
  obtain ⟨_, _, ⟨u, cb, rest, fees, hu, htx, _, _, hall⟩⟩ :=
    validateBlockInState_ok C P cs b (by omega) h2
  refine ⟨u, cb, rest, hu, htx, ?_⟩
  intro t ht
  obtain ⟨_, hs, _, _⟩ := validateTxInState_ok C u t (hall t ht)
  exact hs

/-- no output is spent twice inside the block (within one transaction or across transactions),
and no spend is the null reference -/
theorem no_double_spend_in_block (cs cs' : CoinState) (b : Block) (now : Int)
    (h : addBlock C P cs b now = .ok cs') :
    ∃ cb rest, b.txs = cb :: rest ∧ (allRefs rest).Nodup ∧
      ∀ t ∈ rest, ∀ i ∈ t.tx.inputs, i.ref ≠ thinAir := by
  obtain ⟨h1, _, _⟩ := addBlock_ok C P cs cs' b now h
  obtain ⟨_, _, ⟨cb, rest, htx, _, hall, _, hrefs⟩, _, _⟩ := validateBlockByItself_ok C P b now h1
  refine ⟨cb, rest, htx, hrefs, ?_⟩
  intro t ht
  exact ((validateTxByItself_ok P t).mp (hall t ht)).2.2.2.2.2.2.1

/-- validation consults the parent's map only: a reference that resolves nowhere but in this
very block's outputs (it is absent from the parent's unspent set) makes the block unacceptable -/
theorem created_in_block_not_spendable (cs : CoinState) (b : Block) (now : Int) (u : Utxo)
    (hz : P.maxKnownHeight < b.height) (hu : cs.utxoAt.get? b.prev = some u)
    (t : CTx) (ht : t ∈ b.txs.tail) (i : Input) (hi : i ∈ t.tx.inputs) (hnone : u.get? i.ref = none) :
    ∀ cs', addBlock C P cs b now ≠ .ok cs' := by
  intro cs' h
  obtain ⟨u', cb, rest, hu', htx, hall⟩ := accepted_spends_exist_and_are_signed C P cs cs' b now h hz
  rw [hu] at hu'
  cases hu'
  rw [htx] at ht
  obtain ⟨o, _, ho, _⟩ := hall t ht i hi
  rw [hnone] at ho
  cases ho

/-- an already spent output (absent from the parent's set), an output of another fork (absent
from the parent's set) and a missing output are the same case: `u.get? = none` — rejected -/
theorem missing_or_spent_or_other_fork_rejected (cs : CoinState) (b : Block) (now : Int) (u : Utxo)
    (hz : P.maxKnownHeight < b.height) (hu : cs.utxoAt.get? b.prev = some u)
    (h : ∃ t ∈ b.txs.tail, ∃ i ∈ t.tx.inputs, u.get? i.ref = none) :
    ∀ cs', addBlock C P cs b now ≠ .ok cs' := by
  obtain ⟨t, ht, i, hi, hn⟩ := h
  exact created_in_block_not_spendable C P cs b now u hz hu t ht i hi hn

/-- a placeholder object where a signature belongs is rejected -/
theorem placeholder_signature_rejected (cs : CoinState) (b : Block) (now : Int)
    (h : ∃ t ∈ b.txs.tail, ∃ i ∈ t.tx.inputs, i.sig.isSecp = false) :
    ∀ cs', addBlock C P cs b now ≠ .ok cs' := by
  intro cs' ha
  obtain ⟨t, ht, i, hi, hs⟩ := h
  obtain ⟨h1, _, _⟩ := addBlock_ok C P cs cs' b now ha
  obtain ⟨_, _, ⟨cb, rest, htx, _, hall, _, _⟩, _, _⟩ := validateBlockByItself_ok C P b now h1
  rw [htx] at ht
  have := ((validateTxByItself_ok P t).mp (hall t ht)).2.2.2.2.2.2.2 i hi
  rw [hs] at this
  cases this

/-- the signed message covers the transaction's complete list of spent references and its
outputs: two (well-formed) transactions with the same signed message have the same references in
the same order and the same outputs — so neither can be changed after signing -/
theorem signable_covers (t t' : Tx) (hw : t.WF) (hw' : t'.WF)
    (h : encTx (signable t) = encTx (signable t')) :
    t.inputs.map (·.ref) = t'.inputs.map (·.ref) ∧ t.outputs = t'.outputs := by
  have wf : ∀ x : Tx, x.WF → (signable x).WF := by
    intro x hx
    refine ⟨?_, hx.2⟩
    intro i hi
    simp only [signable, List.mem_map] at hi
    obtain ⟨j, hj, rfl⟩ := hi
    exact ⟨(hx.1 j hj).1, trivial⟩
  have e := Codec.enc_injective Tx.rt (signable t) (signable t') (wf t hw) (wf t' hw') h
  simp only [signable, Tx.mk.injEq] at e
  obtain ⟨e1, e2⟩ := e
  refine ⟨?_, e2⟩
  have := congrArg (List.map (·.ref)) e1
  simpa [List.map_map, Function.comp_def] using this

/-! ## non-vacuity -/

example : (signable ⟨[⟨⟨zeros 32, 1⟩, .secp (zeros 64)⟩], []⟩).inputs = [⟨⟨zeros 32, 1⟩, .signable⟩] := rfl

end C01
end Model

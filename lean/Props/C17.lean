import Model.Spec

/-!
# C17 — the merkle commitment binds the ordered transaction list; proofs verify

`h` is the node hash (`sha256d`); the only thing assumed of it is its output length (true of
SHA-256, not a cryptographic assumption). Cryptographic facts appear as the `Collision h`
disjunct. skepticoin, like Bitcoin, has no domain separation between leaves and inner nodes:
the `LeafIsInner` disjunct says so explicitly.
-/

namespace Model
namespace C17

variable (h : Bytes → Bytes)

/-- the inner-node hashes of a tree -/
def innerHashes : MNode → List Bytes
  | .leaf _ _ => []
  | .node i l r => (MNode.node i l r).hash h :: (innerHashes l ++ innerHashes r)

/-- an entry of one list is the hash of an inner node of the other list's tree -/
def LeafIsInner (t t' : MNode) : Prop :=
  (∃ v ∈ t.leaves.map (·.2), v ∈ innerHashes h t') ∨ (∃ v ∈ t'.leaves.map (·.2), v ∈ innerHashes h t)

/-- `get_merkle_root` terminates with a value on every non-empty list -/
theorem root_defined (l : List Bytes) (hl : l ≠ []) : ∃ r, merkleRoot h l = some r := by
  sorry

/-- `get_merkle_tree` is defined on every non-empty list, has the entries as its leaves in
order (indexed 0, 1, …), and its hash is the root -/
theorem tree_hash_eq_root (l : List Bytes) (hl : l ≠ []) :
    ∃ t, merkleTree l = some t ∧ merkleRoot h l = some (t.hash h) ∧
      t.leaves = (List.range l.length).zip l := by
  sorry

/-- two trees with the same hash have the same leaf values in the same order, or a collision
is exhibited, or a leaf of one is an inner node of the other -/
theorem tree_hash_injective (hh : ∀ x, (h x).length = 32) (t t' : MNode)
    (hl : ∀ v ∈ t.leaves.map (·.2), v.length = 32) (hl' : ∀ v ∈ t'.leaves.map (·.2), v.length = 32)
    (he : t.hash h = t'.hash h) :
    t.leaves.map (·.2) = t'.leaves.map (·.2) ∨ Collision h ∨ LeafIsInner h t t' := by
  sorry

/-- the commitment changes whenever the ordered list of ids changes — by substitution,
reordering, removal, appending or duplication — unless a collision is exhibited or an entry of
one list is an inner hash of the other's tree -/
theorem root_injective (hh : ∀ x, (h x).length = 32) (l l' : List Bytes) (hl : l ≠ []) (hl' : l' ≠ [])
    (h32 : ∀ v ∈ l, v.length = 32) (h32' : ∀ v ∈ l', v.length = 32)
    (he : merkleRoot h l = merkleRoot h l') :
    l = l' ∨ Collision h ∨
      ∃ t t', merkleTree l = some t ∧ merkleTree l' = some t' ∧ LeafIsInner h t t' := by
  sorry

/-- same length (substitution, reordering): no inner/leaf confusion is possible -/
theorem root_injective_same_length (hh : ∀ x, (h x).length = 32) (l l' : List Bytes) (hl : l ≠ [])
    (hlen : l.length = l'.length)
    (h32 : ∀ v ∈ l, v.length = 32) (h32' : ∀ v ∈ l', v.length = 32)
    (he : merkleRoot h l = merkleRoot h l') : l = l' ∨ Collision h := by
  sorry

/-- in particular duplicating the last entry (the construction that was exploitable in
Bitcoin) changes the commitment, up to the stated disjuncts -/
theorem duplicate_last_changes_root (hh : ∀ x, (h x).length = 32) (l : List Bytes) (x : Bytes)
    (h32 : ∀ v ∈ l ++ [x], v.length = 32)
    (he : merkleRoot h (l ++ [x]) = merkleRoot h (l ++ [x, x])) :
    Collision h ∨ ∃ t t', merkleTree (l ++ [x]) = some t ∧ merkleTree (l ++ [x, x]) = some t' ∧
      LeafIsInner h t t' := by
  sorry

/-- the odd entry is promoted, not paired with itself -/
theorem odd_entry_promoted (a b c : Bytes) :
    merkleRoot h [a, b, c] = some (h (h (a ++ b) ++ c)) := by
  sorry

/-- the proof the node produces reproduces the commitment … -/
theorem proof_reproduces_root (t : MNode) (i : Nat) : (getProof h t i).hash h = t.hash h := by
  sorry

/-- … and contains the entry at the requested position -/
theorem proof_contains_entry (l : List Bytes) (hl : l ≠ []) (i : Nat) (hi : i < l.length) (t : MNode)
    (ht : merkleTree l = some t) :
    (i, l[i]) ∈ (getProof h t i).leaves := by
  sorry

theorem proof_sound (l : List Bytes) (hl : l ≠ []) (i : Nat) (hi : i < l.length) :
    ∃ t, merkleTree l = some t ∧ merkleRoot h l = some ((getProof h t i).hash h) ∧
      (i, l[i]) ∈ (getProof h t i).leaves := by
  sorry

end C17
end Model

import Model.Spec
import Proofs.Merkle

/-!
# C17 — the merkle commitment binds the ordered transaction list; proofs verify

`h` is the node hash (`sha256d`); the only thing assumed of it is its output length (true of
SHA-256, not a cryptographic assumption). Cryptographic facts appear as the `Collision h`
disjunct. skepticoin, like Bitcoin, has no domain separation between leaves and inner nodes:
the `LeafIsInner` disjunct says so explicitly.
-/

namespace Model
namespace C17

variable (h : Bytes → Bytes)

/-- the inner-node hashes of a tree -/
def innerHashes : MNode → List Bytes
  | .leaf _ _ => []
  | .node i l r => (MNode.node i l r).hash h :: (innerHashes l ++ innerHashes r)

/-- an entry of one list is the hash of an inner node of the other list's tree -/
def LeafIsInner (t t' : MNode) : Prop :=
  (∃ v ∈ t.leaves.map (·.2), v ∈ innerHashes h t') ∨ (∃ v ∈ t'.leaves.map (·.2), v ∈ innerHashes h t)

/-- `get_merkle_root` terminates with a value on every non-empty list -/
theorem root_defined (l : List Bytes) (hl : l ≠ []) : ∃ r, merkleRoot h l = some r := by
  obtain ⟨t, _, hr, _⟩ := Merkle.tree_hash_eq_root h l hl
  exact ⟨_, hr⟩

/-- `get_merkle_tree` is defined on every non-empty list, has the entries as its leaves in
order (indexed 0, 1, …), and its hash is the root -/
theorem tree_hash_eq_root (l : List Bytes) (hl : l ≠ []) :
    ∃ t, merkleTree l = some t ∧ merkleRoot h l = some (t.hash h) ∧
      t.leaves = (List.range l.length).zip l := by
  exact Merkle.tree_hash_eq_root h l hl

/-- two trees with the same hash have the same leaf values in the same order, or a collision
is exhibited, or a leaf of one is an inner node of the other -/
theorem tree_hash_injective (hh : ∀ x, (h x).length = 32) (t t' : MNode)
    (hl : ∀ v ∈ t.leaves.map (·.2), v.length = 32) (hl' : ∀ v ∈ t'.leaves.map (·.2), v.length = 32)
    (he : t.hash h = t'.hash h) :
    t.leaves.map (·.2) = t'.leaves.map (·.2) ∨ Collision h ∨ LeafIsInner h t t' := by
  induction t generalizing t' with
  | leaf i v =>
    cases t' with
    | leaf i' v' =>
      left
      simpa [MNode.leaves, MNode.hash] using he
    | node i' l' r' =>
      right; right; left
      refine ⟨v, by simp [MNode.leaves], ?_⟩
      simp only [innerHashes, List.mem_cons]
      exact .inl he
  | node i l r ihl ihr =>
    cases t' with
    | leaf i' v' =>
      right; right; right
      refine ⟨v', by simp [MNode.leaves], ?_⟩
      simp only [innerHashes, List.mem_cons]
      exact .inl he.symm
    | node i' l' r' =>
      have monoL : LeafIsInner h l l' → LeafIsInner h (.node i l r) (.node i' l' r') := by
        intro li
        simp only [LeafIsInner, innerHashes, MNode.leaves, List.map_append, List.mem_append,
          List.mem_cons] at li ⊢
        rcases li with ⟨v, hv, hin⟩ | ⟨v, hv, hin⟩
        · exact .inl ⟨v, .inl hv, .inr (.inl hin)⟩
        · exact .inr ⟨v, .inl hv, .inr (.inl hin)⟩
      have monoR : LeafIsInner h r r' → LeafIsInner h (.node i l r) (.node i' l' r') := by
        intro li
        simp only [LeafIsInner, innerHashes, MNode.leaves, List.map_append, List.mem_append,
          List.mem_cons] at li ⊢
        rcases li with ⟨v, hv, hin⟩ | ⟨v, hv, hin⟩
        · exact .inl ⟨v, .inr hv, .inr (.inr hin)⟩
        · exact .inr ⟨v, .inr hv, .inr (.inr hin)⟩
      simp only [MNode.leaves, List.map_append, List.mem_append] at hl hl'
      have hll := fun v hv => hl v (.inl hv)
      have hlr := fun v hv => hl v (.inr hv)
      have hll' := fun v hv => hl' v (.inl hv)
      have hlr' := fun v hv => hl' v (.inr hv)
      have hlen : (l.hash h).length = (l'.hash h).length := by
        rw [Merkle.length_hash h hh l hll, Merkle.length_hash h hh l' hll']
      simp only [MNode.hash] at he
      rcases Merkle.append_collision h _ _ _ _ hlen he with ⟨e1, e2⟩ | hc
      · rcases ihl l' hll hll' e1 with el | hc | li
        · rcases ihr r' hlr hlr' e2 with er | hc | li
          · left
            simp only [MNode.leaves, List.map_append, el, er]
          · exact .inr (.inl hc)
          · exact .inr (.inr (monoR li))
        · exact .inr (.inl hc)
        · exact .inr (.inr (monoL li))
      · exact .inr (.inl hc)

/-- the commitment changes whenever the ordered list of ids changes — by substitution,
reordering, removal, appending or duplication — unless a collision is exhibited or an entry of
one list is an inner hash of the other's tree -/
theorem root_injective (hh : ∀ x, (h x).length = 32) (l l' : List Bytes) (hl : l ≠ []) (hl' : l' ≠ [])
    (h32 : ∀ v ∈ l, v.length = 32) (h32' : ∀ v ∈ l', v.length = 32)
    (he : merkleRoot h l = merkleRoot h l') :
    l = l' ∨ Collision h ∨
      ∃ t t', merkleTree l = some t ∧ merkleTree l' = some t' ∧ LeafIsInner h t t' := by
  obtain ⟨t, ht, hr, hlv⟩ := Merkle.tree_hash_eq_root h l hl
  obtain ⟨t', ht', hr', hlv'⟩ := Merkle.tree_hash_eq_root h l' hl'
  have e : t.leaves.map (·.2) = l := by rw [hlv, Merkle.map_snd_range_zip]
  have e' : t'.leaves.map (·.2) = l' := by rw [hlv', Merkle.map_snd_range_zip]
  rw [hr, hr'] at he
  have he' : t.hash h = t'.hash h := Option.some.inj he
  rcases tree_hash_injective h hh t t' (by rw [e]; exact h32) (by rw [e']; exact h32') he' with
    hleaves | hc | li
  · left; rw [← e, ← e', hleaves]
  · exact .inr (.inl hc)
  · exact .inr (.inr ⟨t, t', ht, ht', li⟩)

/-- same length (substitution, reordering): no inner/leaf confusion is possible -/
theorem root_injective_same_length (hh : ∀ x, (h x).length = 32) (l l' : List Bytes) (hl : l ≠ [])
    (hlen : l.length = l'.length)
    (h32 : ∀ v ∈ l, v.length = 32) (h32' : ∀ v ∈ l', v.length = 32)
    (he : merkleRoot h l = merkleRoot h l') : l = l' ∨ Collision h := by
  exact Merkle.root_fuel_inj h hh l.length l l' hl hlen (Nat.le_refl _) h32 h32'
    (by unfold merkleRoot at he; rw [← hlen] at he; exact he)

/-- in particular duplicating the last entry (the construction that was exploitable in
Bitcoin) changes the commitment, up to the stated disjuncts -/
theorem duplicate_last_changes_root (hh : ∀ x, (h x).length = 32) (l : List Bytes) (x : Bytes)
    (h32 : ∀ v ∈ l ++ [x], v.length = 32)
    (he : merkleRoot h (l ++ [x]) = merkleRoot h (l ++ [x, x])) :
    Collision h ∨ ∃ t t', merkleTree (l ++ [x]) = some t ∧ merkleTree (l ++ [x, x]) = some t' ∧
      LeafIsInner h t t' := by
  have hne : l ++ [x] ≠ l ++ [x, x] := by
    intro e
    have := congrArg List.length e
    simp at this
  have h32' : ∀ v ∈ l ++ [x, x], v.length = 32 := by
    intro v hv
    apply h32 v
    simp only [List.mem_append, List.mem_cons, List.not_mem_nil, or_false] at hv ⊢
    rcases hv with hv | hv | hv
    · exact .inl hv
    · exact .inr hv
    · exact .inr hv
  rcases root_injective h hh (l ++ [x]) (l ++ [x, x]) (by simp) (by simp) h32 h32' he with
    e | hc | li
  · exact absurd e hne
  · exact .inl hc
  · exact .inr li

/-- the odd entry is promoted, not paired with itself -/
theorem odd_entry_promoted (a b c : Bytes) :
    merkleRoot h [a, b, c] = some (h (h (a ++ b) ++ c)) := by
  rfl

/-- the proof the node produces reproduces the commitment … -/
theorem proof_reproduces_root (t : MNode) (i : Nat) : (getProof h t i).hash h = t.hash h := by
  exact Merkle.hash_getProof h t i

/-- … and contains the entry at the requested position -/
theorem proof_contains_entry (l : List Bytes) (hl : l ≠ []) (i : Nat) (hi : i < l.length) (t : MNode)
    (ht : merkleTree l = some t) :
    (i, l[i]) ∈ (getProof h t i).leaves := by
  obtain ⟨t₀, ht₀, _, hlv⟩ := Merkle.tree_hash_eq_root h l hl
  rw [ht] at ht₀
  cases ht₀
  refine Merkle.getProof_mem h (Merkle.span_merkleTree l t ht) i l[i] ?_
  rw [hlv]
  exact Merkle.mem_range_zip l i hi

theorem proof_sound (l : List Bytes) (hl : l ≠ []) (i : Nat) (hi : i < l.length) :
    ∃ t, merkleTree l = some t ∧ merkleRoot h l = some ((getProof h t i).hash h) ∧
      (i, l[i]) ∈ (getProof h t i).leaves := by
  obtain ⟨t, ht, hr, _⟩ := Merkle.tree_hash_eq_root h l hl
  refine ⟨t, ht, ?_, proof_contains_entry h l hl i hi t ht⟩
  rw [proof_reproduces_root]; exact hr

/-! ### non-vacuity -/

/-- a concrete (non-cryptographic) hash with 32-byte output -/
def sumHash : Bytes → Bytes := fun x => List.replicate 32 (x.foldl (· + ·) 0)

/-- the hypothesis `hh` is satisfiable -/
example : ∀ x, (sumHash x).length = 32 := by intro x; simp [sumHash]

/-- concrete evaluations: the odd third entry is promoted, then hashed with the first pair -/
example : merkleRoot sumHash [[1], [2], [3]] = some (List.replicate 32 99) := by decide

example : merkleRoot sumHash [] = none := by decide

example : (merkleTree [[1], [2], [3]]).map (·.leaves) = some [(0, [1]), (1, [2]), (2, [3])] := by
  decide

example : (merkleTree [[1], [2], [3]]).map (fun t => (getProof sumHash t 2).leaves) =
    some [(0, List.replicate 32 3), (2, [3])] := by decide

/-- the hypotheses of `root_injective_same_length` are jointly satisfiable (32-byte entries,
equal lengths, equal roots) and the theorem applies -/
example : [zeros 32, zeros 32] = [zeros 32, zeros 32] ∨ Collision sumHash :=
  root_injective_same_length sumHash (by intro x; simp [sumHash]) [zeros 32, zeros 32]
    [zeros 32, zeros 32] (by simp) rfl (by simp [zeros]) (by simp [zeros]) rfl

/-- the `Collision` disjunct is not idle: for a non-injective hash two different same-length
lists of 32-byte entries do share a root -/
example : merkleRoot sumHash [zeros 32, List.replicate 32 1] =
    merkleRoot sumHash [List.replicate 32 1, zeros 32] := by
  simp [merkleRoot, merkleRootFuel, pairUp, sumHash, zeros, List.replicate]

example : [zeros 32, List.replicate 32 1] ≠ [List.replicate 32 1, zeros 32] := by
  simp [zeros, List.replicate]

end C17
end Model

import Model.Spec
import Proofs.Validation
import Proofs.Codec
import Props.GenTie.Params

/-!
# C05 — header rules: proof of work, difficulty, height and time
-/

namespace Model
namespace C05

variable (C : Crypto) (P : Params)

/-- Python compares the 32-byte id with the 32-byte target as byte strings (lexicographically);
for strings of equal length that is the numeric comparison of the big-endian values -/
theorem bytesLt_iff_lt : ∀ (a b : Bytes), a.length = b.length →
    (bytesLt a b = true ↔ bytesToNat a < bytesToNat b) := by
  intro a
  induction a with
  | nil =>
    intro b hl
    cases b with
    | nil => simp [bytesLt, bytesToNat]
    | cons _ _ => simp at hl
  | cons x xs ih =>
    intro b hl
    cases b with
    | nil => simp at hl
    | cons y ys =>
      have hl' : xs.length = ys.length := by simpa using hl
      rw [Codec.bytesToNat_cons, Codec.bytesToNat_cons, hl']
      have hx := Codec.bytesToNat_lt xs
      have hy := Codec.bytesToNat_lt ys
      rw [hl'] at hx
      have hpos : 0 < 256 ^ ys.length := Nat.pow_pos (by omega)
      simp only [bytesLt]
      by_cases h1 : x < y
      · simp only [h1, if_true, true_iff]
        have : x.toNat + 1 ≤ y.toNat := UInt8.lt_iff_toNat_lt.mp h1
        have := Nat.mul_le_mul_right (256 ^ ys.length) this
        rw [Nat.add_mul] at this
        omega
      · by_cases h2 : y < x
        · simp only [h1, h2, if_false, if_true, Bool.false_eq_true, false_iff]
          have : y.toNat + 1 ≤ x.toNat := UInt8.lt_iff_toNat_lt.mp h2
          have := Nat.mul_le_mul_right (256 ^ ys.length) this
          rw [Nat.add_mul] at this
          omega
        · have hxy : x = y := by
            have a : ¬ x.toNat < y.toNat := fun h => h1 (UInt8.lt_iff_toNat_lt.mpr h)
            have b : ¬ y.toNat < x.toNat := fun h => h2 (UInt8.lt_iff_toNat_lt.mpr h)
            exact UInt8.toNat_inj.mp (by omega)
          subst hxy
          simp only [h1, if_false]
          rw [ih ys hl']
          omega

/-- what full validation established about the header of an accepted block -/
theorem accept_header_rules (cs cs' : CoinState) (b : Block) (now : Int)
    (h : addBlock C P cs b now = .ok cs') (hz : P.maxKnownHeight < b.height) :
    -- its id (recomputed from the header) is below its stated target
    bytesLt (C.sha256d (encHeader b.header)) b.target = true ∧
    -- at most MAX_FUTURE_BLOCK_TIME ahead of the validator's clock
    (b.timestamp : Int) ≤ now + P.maxFutureBlockTime ∧
    -- parent known; height is the parent's plus one; timestamp strictly later than the parent's;
    -- the stated target is the one the retargeting rule prescribes from the block's own ancestors
    (∃ pb, cs.blocks.get? b.prev = some pb ∧ b.height = pb.height + 1 ∧ pb.timestamp < b.timestamp ∧
      calcTarget C P cs b.height b.timestamp pb = .ok b.target) ∧
    -- the height recorded in the reward transaction is the block's height
    (∃ cb rest d, b.txs = cb :: rest ∧ cb.tx.inputs = [⟨thinAir, .coinbase b.height d⟩]) ∧
    -- the evidence equals the evidence recomputed from summary, sampled ancestors and transactions
    constructEvidence C P cs b.header.summary b.height b.txs = .ok b.header.evidence := by
  obtain ⟨h1, h2, _⟩ := addBlock_ok C P cs cs' b now h
  obtain ⟨hpow, hfut, ⟨cb, rest, htx, ⟨d, hcb, _⟩, _⟩, _, _⟩ := validateBlockByItself_ok C P b now h1
  obtain ⟨⟨pb, hpb, hts, hh, htg⟩, hev, _⟩ := validateBlockInState_ok C P cs b (by omega) h2
  refine ⟨hpow, hfut, ⟨pb, hpb, hh, hts, ?_⟩, ⟨cb, rest, d, htx, hcb⟩, hev⟩
  rw [hh]; exact htg

/-- for a block obtained from bytes, whose id is the hash of its header (C07), and 32-byte hash
output: the id is numerically below the target -/
theorem id_numerically_below_target (cs cs' : CoinState) (b : Block) (now : Int)
    (h : addBlock C P cs b now = .ok cs') (hz : P.maxKnownHeight < b.height)
    (hid : b.id C = C.sha256d (encHeader b.header)) (hl : (b.id C).length = b.target.length) :
    bytesToNat (b.id C) < bytesToNat b.target := by
  have := (accept_header_rules C P cs cs' b now h hz).1
  rw [← hid] at this
  exact (bytesLt_iff_lt _ _ hl).mp this

/-- the retargeting rule: unchanged inside a period; at a boundary computed from the timestamp
of the ancestor one period below -/
theorem calcTarget_spec (cs : CoinState) (height ts : Nat) (pb : Block) (t : Bytes)
    (h : calcTarget C P cs height ts pb = .ok t) :
    (height % P.retargetInterval ≠ 0 → t = pb.target) ∧
    (height % P.retargetInterval = 0 →
      ∃ sb, (cs.byHeightAt.get? (pb.id C)).bind (·.get? (height - P.retargetInterval)) = some sb ∧
        P.retargetInterval ≤ height ∧ sb.timestamp ≤ ts ∧
        t = newTarget P pb.target (ts - sb.timestamp)) := by
  unfold calcTarget at h
  constructor
  · intro hne
    rw [if_neg hne] at h
    cases h; rfl
  · intro he
    rw [if_pos he] at h
    split at h
    · cases h
    · rename_i sb hsb
      split at h
      · cases h
      · split at h
        · cases h
        · cases h
          exact ⟨sb, hsb, by omega, by omega, rfl⟩

/-- the previous target times elapsed seconds over the period length, integer-exact, capped at
2^256 − 1 -/
theorem newTargetNat_spec (p t : Nat) :
    newTargetNat P p t = min (p * t / P.retargetTimespan) (2 ^ 256 - 1) := by
  unfold newTargetNat
  simp only
  split <;> omega

theorem newTarget_spec (prev : Bytes) (t : Nat) :
    (newTarget P prev t).length = 32 ∧
    bytesToNat (newTarget P prev t) = min (bytesToNat prev * t / P.retargetTimespan) (2 ^ 256 - 1) := by
  unfold newTarget
  refine ⟨Codec.natToBytes_length _ _, ?_⟩
  rw [Codec.bytesToNat_natToBytes, newTargetNat_spec]
  apply Nat.mod_eq_of_lt
  have : (256 : Nat) ^ 32 = 2 ^ 256 := by decide
  omega

/-- with the constants regenerated from /repo: a 10,080-block period of 1,209,600 seconds -/
theorem production_retarget (prev : Bytes) (t : Nat) :
    Gen.params.retargetInterval = 10080 ∧
    bytesToNat (newTarget Gen.params prev t) = min (bytesToNat prev * t / 1209600) (2 ^ 256 - 1) := by
  refine ⟨by decide, ?_⟩
  have := (newTarget_spec Gen.params prev t).2
  rw [this]
  rfl

/-- the ancestors sampled for the evidence are below the block (so the evidence is always
recomputable on a stored parent) -/
theorem sampled_height_in_range (hash : Bytes) (height : Nat) (hpos : 0 < height) :
    selectBlockHeight hash height < height := by
  unfold selectBlockHeight
  exact Nat.mod_lt _ hpos

/-! ## each rule broken alone is rejected (contrapositives, for the record) -/

theorem stale_or_wrong_target_rejected (cs : CoinState) (b : Block) (now : Int) (pb : Block)
    (hz : P.maxKnownHeight < b.height) (hpb : cs.blocks.get? b.prev = some pb)
    (hne : calcTarget C P cs (pb.height + 1) b.timestamp pb ≠ .ok b.target) :
    ∀ cs', addBlock C P cs b now ≠ .ok cs' := by
  intro cs' h
  obtain ⟨_, _, ⟨pb', hpb', hh, _, ht⟩, _, _⟩ := accept_header_rules C P cs cs' b now h hz
  rw [hpb] at hpb'
  cases hpb'
  rw [hh] at ht
  exact hne ht

theorem timestamp_not_after_parent_rejected (cs : CoinState) (b : Block) (now : Int) (pb : Block)
    (hz : P.maxKnownHeight < b.height) (hpb : cs.blocks.get? b.prev = some pb)
    (hts : b.timestamp ≤ pb.timestamp) : ∀ cs', addBlock C P cs b now ≠ .ok cs' := by
  intro cs' h
  obtain ⟨_, _, ⟨pb', hpb', _, hlt, _⟩, _, _⟩ := accept_header_rules C P cs cs' b now h hz
  rw [hpb] at hpb'
  cases hpb'
  omega

theorem future_timestamp_rejected (cs : CoinState) (b : Block) (now : Int)
    (hts : (b.timestamp : Int) > now + P.maxFutureBlockTime) :
    ∀ cs', addBlock C P cs b now ≠ .ok cs' := by
  intro cs' h
  obtain ⟨h1, _, _⟩ := addBlock_ok C P cs cs' b now h
  have := (validateBlockByItself_ok C P b now h1).notFuture
  omega

/-! ## non-vacuity -/

example : newTargetNat Gen.params (2 ^ 248) 1209600 = 2 ^ 248 := by decide
example : newTargetNat Gen.params (2 ^ 255) (4 * 1209600) = 2 ^ 256 - 1 := by decide
example : bytesLt [0, 5] [0, 6] = true ∧ bytesLt [1, 0] [0, 255] = false := by decide

end C05
end Model

import Model.Spec

/-!
# C03 — the ledger state at a block is a function of that block's chain alone
-/

namespace Model
namespace C03

variable (C : Crypto)

/-- for every stored block the unspent-output set the node holds equals the one obtained by
replaying the block's chain from genesis — whatever else is stored, whatever the arrival order -/
theorem utxo_is_replay (bs : List Block) (s : CoinState) (hwf : WFArrivals C bs)
    (hf : foldBlocks C .empty bs = .ok s) (b : Block) (hb : b ∈ bs) :
    ∃ u, s.utxoAt.get? (b.id C) = some u ∧ replayUtxo C (chainOf C bs bs.length b) [] = .ok u := by
  sorry

/-- `chainOf` does not depend on the order of the history, only on its set of blocks -/
theorem chainOf_perm (bs bs' : List Block) (hwf : WFArrivals C bs) (hwf' : WFArrivals C bs')
    (hp : ∀ x, x ∈ bs ↔ x ∈ bs') (hl : bs.length = bs'.length) (b : Block) (hb : b ∈ bs) :
    chainOf C bs bs.length b = chainOf C bs' bs'.length b := by
  sorry

/-- two arrival orders of the same block set give the same unspent set and the same by-height
index at every block -/
theorem arrival_order_irrelevant (bs bs' : List Block) (s s' : CoinState)
    (hwf : WFArrivals C bs) (hwf' : WFArrivals C bs') (hp : ∀ x, x ∈ bs ↔ x ∈ bs')
    (hl : bs.length = bs'.length)
    (hf : foldBlocks C .empty bs = .ok s) (hf' : foldBlocks C .empty bs' = .ok s')
    (b : Block) (hb : b ∈ bs) :
    s.utxoAt.get? (b.id C) = s'.utxoAt.get? (b.id C) := by
  sorry

/-- the per-key balances the node reports at a block are computed by replaying that block's
chain (`PublicKeyBalances` walks `previous_block_hash` links; the cache is memoisation) -/
theorem balances_are_replay (bs : List Block) (s : CoinState) (hwf : WFArrivals C bs)
    (hf : foldBlocks C .empty bs = .ok s) (b : Block) (hb : b ∈ bs) :
    balancesAt C s (b.id C) =
      (replay C (chainOf C bs bs.length b) [] []).map (·.2) := by
  sorry

/-- adding a block never changes what an earlier snapshot holds for the blocks it knew:
the new state agrees with the old one on every previously stored id -/
theorem earlier_entries_unchanged (cs cs' : CoinState) (b : Block)
    (ha : addBlockNoValidation C cs b = .ok cs') (id : Bytes) (hid : id ≠ b.id C) :
    cs'.utxoAt.get? id = cs.utxoAt.get? id ∧ cs'.blocks.get? id = cs.blocks.get? id ∧
    (b.prev ≠ zeros 32 → cs'.byHeightAt.get? id = cs.byHeightAt.get? id) := by
  sorry

end C03
end Model

import Model.Spec
import Proofs.Map
import Proofs.Chain
import Proofs.Replay
import Props.C04

/-!
# C03 — the ledger state at a block is a function of that block's chain alone
-/

namespace Model
namespace C03

variable (C : Crypto)

/-- for every stored block the unspent-output set the node holds equals the one obtained by
replaying the block's chain from genesis — whatever else is stored, whatever the arrival order -/
theorem utxo_is_replay (bs : List Block) (s : CoinState) (hwf : WFArrivals C bs)
    (hf : foldBlocks C .empty bs = .ok s) (b : Block) (hb : b ∈ bs) :
    ∃ u, s.utxoAt.get? (b.id C) = some u ∧ replayUtxo C (chainOf C bs bs.length b) [] = .ok u := by
  induction hwf generalizing s b with
  | genesis g h1 h2 h3 =>
    obtain ⟨u₀, u, hu0, -, hap, hut⟩ := add_ok_utxo C (foldBlocks_single_ok C hf)
    rw [List.mem_singleton.1 hb, hut, Map.get?_set_self]
    refine ⟨u, rfl, ?_⟩
    rw [hu0 h1] at hap
    simp only [List.length_singleton, chainOf, h1, ↓reduceIte, replayUtxo, hap]
  | snoc bs x p hwf hp hprev hht hnz hfresh ih =>
    obtain ⟨s₀, hf₀, ha⟩ := foldBlocks_snoc_ok C hf
    have F := hwf.facts C
    have hz : x.prev ≠ zeros 32 := by rw [hprev]; exact F.nz p hp
    obtain ⟨u₀, u, -, hu0, hap, hut⟩ := add_ok_utxo C ha
    rw [hut, Map.get?_set]
    rcases List.mem_append.1 hb with hb | hb
    · have hne : x.id C ≠ b.id C := fun e => hfresh b hb e.symm
      simp only [hne, ↓reduceIte]
      rw [chainOf_snoc_old C F x hb]
      exact ih s₀ hf₀ b hb
    · rw [List.mem_singleton.1 hb]
      simp only [↓reduceIte]
      refine ⟨u, rfl, ?_⟩
      obtain ⟨up, hup, hrp⟩ := ih s₀ hf₀ p hp
      have h0 := hu0 hz
      rw [hprev, hup] at h0
      simp only [Option.some.injEq] at h0
      subst h0
      rw [chainOf_snoc_new C F hp hprev, replayUtxo_snoc, hrp]
      exact hap

/-- `chainOf` does not depend on the order of the history, only on its set of blocks -/
theorem chainOf_perm (bs bs' : List Block) (hwf : WFArrivals C bs) (hwf' : WFArrivals C bs')
    (hp : ∀ x, x ∈ bs ↔ x ∈ bs') (hl : bs.length = bs'.length) (b : Block) (hb : b ∈ bs) :
    chainOf C bs bs.length b = chainOf C bs' bs'.length b := by
  have _ := hwf
  have _ := hb
  rw [← hl]
  exact chainOf_congr C (findBlock_perm C (hwf'.facts C) hp) bs.length b

/-- two arrival orders of the same block set give the same unspent set and the same by-height
index at every block -/
theorem arrival_order_irrelevant (bs bs' : List Block) (s s' : CoinState)
    (hwf : WFArrivals C bs) (hwf' : WFArrivals C bs') (hp : ∀ x, x ∈ bs ↔ x ∈ bs')
    (hl : bs.length = bs'.length)
    (hf : foldBlocks C .empty bs = .ok s) (hf' : foldBlocks C .empty bs' = .ok s')
    (b : Block) (hb : b ∈ bs) :
    s.utxoAt.get? (b.id C) = s'.utxoAt.get? (b.id C) := by
  obtain ⟨u, hu, hr⟩ := utxo_is_replay C bs s hwf hf b hb
  obtain ⟨u', hu', hr'⟩ := utxo_is_replay C bs' s' hwf' hf' b ((hp b).1 hb)
  rw [chainOf_perm C bs bs' hwf hwf' hp hl b hb, hr'] at hr
  cases hr
  rw [hu, hu']

/-- the per-key balances the node reports at a block are computed by replaying that block's
chain (`PublicKeyBalances` walks `previous_block_hash` links; the cache is memoisation) -/
theorem balances_are_replay (bs : List Block) (s : CoinState) (hwf : WFArrivals C bs)
    (hf : foldBlocks C .empty bs = .ok s) (b : Block) (hb : b ∈ bs) :
    balancesAt C s (b.id C) =
      (replay C (chainOf C bs bs.length b) [] []).map (·.2) := by
  unfold balancesAt
  rw [chainAtHash_blocks C bs s hwf hf hb]
  simp only [bind, Except.bind]
  cases replay C (chainOf C bs bs.length b) [] [] with
  | error e => rfl
  | ok r => rfl

/-- adding a block never changes what an earlier snapshot holds for the blocks it knew:
the new state agrees with the old one on every previously stored id -/
theorem earlier_entries_unchanged (cs cs' : CoinState) (b : Block)
    (ha : addBlockNoValidation C cs b = .ok cs') (id : Bytes) (hid : id ≠ b.id C) :
    cs'.utxoAt.get? id = cs.utxoAt.get? id ∧ cs'.blocks.get? id = cs.blocks.get? id ∧
    (b.prev ≠ zeros 32 → cs'.byHeightAt.get? id = cs.byHeightAt.get? id) := by
  obtain ⟨hb, -, -, hbh, -⟩ := add_ok_inv C ha
  obtain ⟨u₀, u, -, -, -, hut⟩ := add_ok_utxo C ha
  have hid' : b.id C ≠ id := fun e => hid e.symm
  refine ⟨?_, ?_, ?_⟩
  · rw [hut, Map.get?_set_other _ _ _ _ hid']
  · rw [hb, Map.get?_set_other _ _ _ _ hid']
  · intro hz
    obtain ⟨bh, -, hbh⟩ := hbh hz
    rw [hbh, Map.get?_set_other _ _ _ _ hid']

/-! ## non-vacuity -/

/-- the hypotheses of `utxo_is_replay` / `balances_are_replay` are satisfiable for every `Crypto`:
a genesis block and a child (both with cached hashes, as blocks read from the wire or the block
store carry) arrive successfully, and the child is a block of that history -/
example : ∃ (bs : List Block) (s : CoinState) (b : Block),
    WFArrivals C bs ∧ foldBlocks C .empty bs = .ok s ∧ b ∈ bs ∧ bs.length = 2 ∧
    b.prev ≠ zeros 32 := by
  let cb : CTx := ⟨⟨[], [⟨10, [5]⟩]⟩, some [7]⟩
  let g : Block := ⟨⟨⟨0, zeros 32, [], 0, [], 0⟩, ⟨[], [], []⟩⟩, [cb], some [1]⟩
  let b₁ : Block := ⟨⟨⟨1, [1], [], 0, [], 0⟩, ⟨[], [], []⟩⟩, [cb], some [2]⟩
  have hg : WFArrivals C [g] := .genesis g rfl rfl
    (by show ([1] : Bytes) ≠ zeros 32; decide)
  have hwf : WFArrivals C ([g] ++ [b₁]) :=
    .snoc [g] b₁ g hg (List.mem_singleton.2 rfl) rfl rfl
      (by show ([2] : Bytes) ≠ zeros 32; decide)
      (by intro c hc; rw [List.mem_singleton.1 hc]; show ([1] : Bytes) ≠ [2]; decide)
  refine ⟨[g] ++ [b₁], _, b₁, hwf, rfl, by simp, rfl, ?_⟩
  show ([1] : Bytes) ≠ zeros 32
  decide

/-- the hypotheses of `arrival_order_irrelevant` / `chainOf_perm` are satisfiable with two
genuinely different arrival orders: a genesis block and two children of it, arriving in either
order -/
example : ∃ (bs bs' : List Block) (s s' : CoinState),
    WFArrivals C bs ∧ WFArrivals C bs' ∧ (∀ x, x ∈ bs ↔ x ∈ bs') ∧ bs.length = bs'.length ∧
    foldBlocks C .empty bs = .ok s ∧ foldBlocks C .empty bs' = .ok s' ∧ bs ≠ bs' := by
  let cb : CTx := ⟨⟨[], [⟨10, [5]⟩]⟩, some [7]⟩
  let g : Block := ⟨⟨⟨0, zeros 32, [], 0, [], 0⟩, ⟨[], [], []⟩⟩, [cb], some [1]⟩
  let b₁ : Block := ⟨⟨⟨1, [1], [], 0, [], 0⟩, ⟨[], [], []⟩⟩, [cb], some [2]⟩
  let b₂ : Block := ⟨⟨⟨1, [1], [], 0, [], 1⟩, ⟨[], [], []⟩⟩, [cb], some [3]⟩
  have hg : WFArrivals C [g] := .genesis g rfl rfl
    (by show ([1] : Bytes) ≠ zeros 32; decide)
  have h1 : WFArrivals C ([g] ++ [b₁]) :=
    .snoc [g] b₁ g hg (List.mem_singleton.2 rfl) rfl rfl
      (by show ([2] : Bytes) ≠ zeros 32; decide)
      (by intro c hc; rw [List.mem_singleton.1 hc]; show ([1] : Bytes) ≠ [2]; decide)
  have h2 : WFArrivals C ([g] ++ [b₂]) :=
    .snoc [g] b₂ g hg (List.mem_singleton.2 rfl) rfl rfl
      (by show ([3] : Bytes) ≠ zeros 32; decide)
      (by intro c hc; rw [List.mem_singleton.1 hc]; show ([1] : Bytes) ≠ [3]; decide)
  have h12 : WFArrivals C (([g] ++ [b₁]) ++ [b₂]) :=
    .snoc _ b₂ g h1 (by simp) rfl rfl
      (by show ([3] : Bytes) ≠ zeros 32; decide)
      (by
        intro c hc
        simp only [List.mem_append, List.mem_singleton] at hc
        rcases hc with hc | hc <;> rw [hc]
        · show ([1] : Bytes) ≠ [3]; decide
        · show ([2] : Bytes) ≠ [3]; decide)
  have h21 : WFArrivals C (([g] ++ [b₂]) ++ [b₁]) :=
    .snoc _ b₁ g h2 (by simp) rfl rfl
      (by show ([2] : Bytes) ≠ zeros 32; decide)
      (by
        intro c hc
        simp only [List.mem_append, List.mem_singleton] at hc
        rcases hc with hc | hc <;> rw [hc]
        · show ([1] : Bytes) ≠ [2]; decide
        · show ([3] : Bytes) ≠ [2]; decide)
  refine ⟨_, _, _, _, h12, h21, ?_, rfl, rfl, rfl, ?_⟩
  · intro x
    simp only [List.mem_append, List.mem_singleton]
    constructor <;> rintro ((h | h) | h) <;> simp [h]
  · decide

end C03
end Model

import Model.Fetch
import Props.C10Follow

/-!
# C10 (continued) — when a node asks for blocks on its own initiative (`ChainManager.step`)

`Model.chainStep` is the fetch scheduler. What is proved here, for every node state, scheduler state, clock and choice:

* a step that is not due changes nothing; a due step changes at most one connection, to which it sends exactly one
  `GetBlocks` carrying the node's own locator, and never touches chain state, pool or store;
* who can be asked (`candidate_iff`): exactly the greeted, open connections whose last *empty* answer is older than the
  back-off — in particular a connection with an unfinished inventory batch stays eligible
  (`candidate_ignores_inventory_state`);
* the slot is freed by time alone (`slot_free_after_timeouts`) or by completed batches (`slot_free_when_handled`), so
  a due step with an eligible peer **does ask** once the timeouts of earlier requests have passed
  (`asks_again_after_timeouts`) — an unfinished batch cannot silence the scheduler;
* the list of outstanding requests stays bounded (`fetching_bounded`).

With `C10Walk.every_missing_block_offered` (what the loop started by that request lists) these are the per-node halves of
the convergence statement; the interleaving of several peers is executed (part B of the harness), not proved.
-/

namespace C10Fetch
open Model C10Follow

variable (C : Crypto) (F : FetchParams)

theorem idle_when_not_due (n : Node) (f : FetchSt) (now : Int) (pick : Nat) (hd : Block)
    (hhead : n.mgr.coinstate.head = some hd)
    (h : shouldFetch F hd.header.summary.timestamp f.startedAt now = false) :
    chainStep C F n f now pick = .ok (n, f) := by
  simp [chainStep, hhead, h]

theorem idle_without_candidates (n : Node) (f : FetchSt) (now : Int) (pick : Nat) (hd : Block)
    (hhead : n.mgr.coinstate.head = some hd) (h : candidates F n f now = []) :
    chainStep C F n f now pick = .ok (n, f) := by
  unfold chainStep
  simp only [hhead, h]
  split <;> simp

/-- who can be asked -/
theorem candidate_iff (n : Node) (f : FetchSt) (now : Int) (c : Nat) :
    c ∈ candidates F n f now ↔
      ∃ p, n.peers[c]? = some p ∧ p.active = true ∧ now > f.lastEmpty c + F.emptyBackoff := by
  unfold candidates candidateOk
  simp only [List.mem_filter, List.mem_range]
  constructor
  · rintro ⟨hlt, h⟩
    cases hp : n.peers[c]? with
    | none => simp [hp] at h
    | some p =>
      simp only [hp, Bool.and_eq_true, decide_eq_true_eq] at h
      exact ⟨p, rfl, h.1, h.2⟩
  · rintro ⟨p, hp, ha, ht⟩
    refine ⟨?_, ?_⟩
    · exact (List.getElem?_eq_some_iff.mp hp).1
    · simp [hp, ha, ht]

/-- eligibility looks at the greeting flags and the last empty answer only: whatever happens to a connection's pending
inventory, its waiting flag or its outbox leaves the candidate list as it is -/
theorem candidate_ignores_inventory_state (n : Node) (f : FetchSt) (now : Int) (c : Nat) (g : PeerSt → PeerSt)
    (hg : ∀ p, (g p).active = p.active) :
    candidates F (n.updatePeer c g) f now = candidates F n f now := by
  unfold candidates
  have hl : (n.updatePeer c g).peers.length = n.peers.length := by simp [Node.updatePeer]
  rw [hl]
  apply List.filter_congr
  intro i _
  simp only [Node.updatePeer, List.getElem?_mapIdx]
  cases hp : n.peers[i]? with
  | none => simp
  | some p =>
    simp only [Option.map_some]
    by_cases hic : i = c
    · simp [hic, hg]
    · simp [hic]

/-- the slot is freed by time alone -/
theorem slot_free_after_timeouts (n : Node) (f : FetchSt) (now : Int)
    (h : ∀ e ∈ f.fetching, e.1 ≤ now) : pruneFetching n f now = [] := by
  unfold pruneFetching stillFetching
  rw [List.filter_eq_nil_iff]
  intro e he
  have := h e he
  have hlt : ¬ now < e.1 := by omega
  simp [hlt]

/-- … or by completed batches -/
theorem slot_free_when_handled (n : Node) (f : FetchSt) (now : Int)
    (h : ∀ e ∈ f.fetching, ∀ p, n.peers[e.2]? = some p → batchHandled p = true) :
    pruneFetching n f now = [] := by
  unfold pruneFetching stillFetching
  rw [List.filter_eq_nil_iff]
  intro e he
  cases hp : n.peers[e.2]? with
  | none => simp
  | some p => simp [h e he p hp]

/-- a pruned list is a sublist, and keeps only entries whose timeout lies ahead and whose batch is unfinished -/
theorem prune_keeps (n : Node) (f : FetchSt) (now : Int) (e : Int × Nat) (he : e ∈ pruneFetching n f now) :
    e ∈ f.fetching ∧ now < e.1 := by
  unfold pruneFetching stillFetching at he
  simp only [List.mem_filter, Bool.and_eq_true, decide_eq_true_eq] at he
  exact ⟨he.1, he.2.1⟩

/-- the shape of a request -/
theorem request_shape (n : Node) (f : FetchSt) (now : Int) (pick : Nat) (hd : Block) (loc : List Bytes)
    (hhead : n.mgr.coinstate.head = some hd)
    (hdue : shouldFetch F hd.header.summary.timestamp f.startedAt now = true)
    (hc : candidates F n f now ≠ [])
    (hslot : (pruneFetching n f now).length ≤ F.maxIbdPeers)
    (hloc : locator C n.mgr.coinstate = .ok loc) :
    ∃ c ∈ candidates F n f now,
      chainStep C F n f now pick =
        .ok ((n.updatePeer c fun p => { p with waitingForInventory := true }).send c (.getBlocks loc),
             { f with fetching := pruneFetching n f now ++ [(now + F.ibdPeerTimeout, c)] }) := by
  have hne : (candidates F n f now).isEmpty = false := by
    cases h : candidates F n f now with
    | nil => exact absurd h hc
    | cons a l => rfl
  have hlen : 0 < (candidates F n f now).length := by
    cases h : candidates F n f now with
    | nil => exact absurd h hc
    | cons a l => simp
  have hidx : pick % (candidates F n f now).length < (candidates F n f now).length := Nat.mod_lt _ hlen
  refine ⟨(candidates F n f now).getD (pick % (candidates F n f now).length) 0, ?_, ?_⟩
  · rw [List.getD_eq_getElem?_getD, List.getElem?_eq_getElem hidx, Option.getD_some]
    exact List.getElem_mem hidx
  · unfold chainStep
    have hm : ¬ (pruneFetching n f now).length > F.maxIbdPeers := by omega
    simp [hhead, hdue, hne, hm, hloc]

/-- a due step with an eligible peer asks again once the timeouts of the earlier requests have passed, whatever the state
of any inventory batch -/
theorem asks_again_after_timeouts (n : Node) (f : FetchSt) (now : Int) (pick : Nat) (hd : Block) (loc : List Bytes)
    (hhead : n.mgr.coinstate.head = some hd)
    (hdue : shouldFetch F hd.header.summary.timestamp f.startedAt now = true)
    (c₀ : Nat) (p₀ : PeerSt) (hp : n.peers[c₀]? = some p₀) (hact : p₀.active = true)
    (hback : now > f.lastEmpty c₀ + F.emptyBackoff)
    (htimeouts : ∀ e ∈ f.fetching, e.1 ≤ now)
    (hloc : locator C n.mgr.coinstate = .ok loc) :
    ∃ c n' f', chainStep C F n f now pick = .ok (n', f') ∧ c ∈ candidates F n f now ∧
      (∃ p, n.peers[c]? = some p ∧
        n'.peers[c]? = some { p with waitingForInventory := true, outbox := p.outbox ++ [.getBlocks loc] }) ∧
      f'.fetching = [(now + F.ibdPeerTimeout, c)] := by
  have hmem : c₀ ∈ candidates F n f now := (candidate_iff F n f now c₀).mpr ⟨p₀, hp, hact, hback⟩
  have hc : candidates F n f now ≠ [] := List.ne_nil_of_mem hmem
  have hpr := slot_free_after_timeouts n f now htimeouts
  obtain ⟨c, hcm, hstep⟩ := request_shape C F n f now pick hd loc hhead hdue hc (by simp [hpr]) hloc
  obtain ⟨p, hpc, -, -⟩ := (candidate_iff F n f now c).mp hcm
  refine ⟨c, _, _, hstep, hcm, ⟨p, hpc, ?_⟩, by simp [hpr]⟩
  have h1 := peers_updatePeer n c (fun p => { p with waitingForInventory := true }) p hpc
  exact peers_send _ c (.getBlocks loc) _ h1

/-- a step never touches chain state, pool, write buffer or store, and leaves every other connection as it was -/
theorem step_is_local (n n' : Node) (f f' : FetchSt) (now : Int) (pick : Nat)
    (h : chainStep C F n f now pick = .ok (n', f')) :
    n'.mgr = n.mgr ∧ n'.wbuf = n.wbuf ∧ n'.disk = n.disk ∧ n'.nonce = n.nonce ∧
    f'.startedAt = f.startedAt ∧ f'.lastEmpty = f.lastEmpty ∧
    (n' = n ∨ ∃ c loc, c ∈ candidates F n f now ∧ locator C n.mgr.coinstate = .ok loc ∧
      n' = (n.updatePeer c fun p => { p with waitingForInventory := true }).send c (.getBlocks loc)) := by
  unfold chainStep at h
  cases hh : n.mgr.coinstate.head with
  | none => simp [hh] at h
  | some hd =>
    simp only [hh] at h
    split at h
    · cases h; simp
    · split at h
      · cases h; simp
      · split at h
        · cases h; simp
        · rename_i hne _
          cases hl : locator C n.mgr.coinstate with
          | error e => simp [hl] at h
          | ok loc =>
            simp only [hl, Except.ok.injEq, Prod.mk.injEq] at h
            obtain ⟨h1, h2⟩ := h
            subst h1 h2
            refine ⟨rfl, rfl, rfl, rfl, rfl, rfl, Or.inr ⟨_, loc, ?_, rfl, rfl⟩⟩
            have hlen : 0 < (candidates F n f now).length := by
              cases hcs : candidates F n f now with
              | nil => simp [hcs] at hne
              | cons a l => simp
            have hidx := Nat.mod_lt pick hlen
            rw [List.getD_eq_getElem?_getD, List.getElem?_eq_getElem hidx, Option.getD_some]
            exact List.getElem_mem hidx

/-- the list of outstanding requests never grows beyond the limit plus one -/
theorem fetching_bounded (n n' : Node) (f f' : FetchSt) (now : Int) (pick : Nat)
    (hb : f.fetching.length ≤ F.maxIbdPeers + 1)
    (h : chainStep C F n f now pick = .ok (n', f')) : f'.fetching.length ≤ F.maxIbdPeers + 1 := by
  have hpl : (pruneFetching n f now).length ≤ f.fetching.length := by
    unfold pruneFetching; exact List.length_filter_le _ _
  unfold chainStep at h
  cases hh : n.mgr.coinstate.head with
  | none => simp [hh] at h
  | some hd =>
    simp only [hh] at h
    split at h
    · cases h; exact hb
    · split at h
      · cases h; exact hb
      · split at h
        · cases h; simp only; omega
        · rename_i _ hm
          cases hl : locator C n.mgr.coinstate with
          | error e => simp [hl] at h
          | ok loc =>
            simp only [hl, Except.ok.injEq, Prod.mk.injEq] at h
            obtain ⟨-, h2⟩ := h
            subst h2
            simp only [List.length_append, List.length_cons, List.length_nil]
            simp only [gt_iff_lt, Nat.not_lt] at hm
            omega

/-- premises are satisfiable and the conclusion is not trivial: production constants, one greeted peer, a stale head -/
example : shouldFetch ⟨1, 60, 300, 60⟩ 1000 0 2000 = true ∧ shouldFetch ⟨1, 60, 300, 60⟩ 1000 0 1201 = false ∧
    shouldFetch ⟨1, 60, 300, 60⟩ 1000 0 1200 = true ∧ candidateOk ⟨1, 60, 300, 60⟩ 100 40 = false ∧
    candidateOk ⟨1, 60, 300, 60⟩ 101 40 = true ∧ stillFetching 59 60 false = true ∧ stillFetching 60 60 false = false ∧
    stillFetching 59 60 true = false := by decide

end C10Fetch

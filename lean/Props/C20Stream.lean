import Model.Node
import Props.C20
import Proofs.Stream

/-!
# C20 at the level of whole streams, interleaved with the traffic of other connections

`Props/C20.lean` shows, event by event, that malformed input changes nothing but the connection it arrives on. Here the same is
stated for every *history*: the events of one connection `c` — each of them anything but an accepted block or an admitted
transaction — interleaved in any way with arbitrary events (valid or not) on the other connections. The node ends with exactly
the chain state, pending pool, write buffer, store and other connections it would have had if connection `c` had never sent
anything:

* `noninterference_step`: handling an event of another connection does not look at connection `c`;
* `stream_contained`: a whole stream on `c` alone is contained;
* `interleaved_contained`: the interleaving theorem.
-/

namespace Model
namespace C20

variable (C : Crypto) (P : Params)

/-- the two nodes agree on everything except the state of connection `c` -/
def EqExcept (c : Nat) (a b : Node) : Prop :=
  a.mgr = b.mgr ∧ a.wbuf = b.wbuf ∧ a.disk = b.disk ∧ a.nonce = b.nonce ∧ a.peers.length = b.peers.length ∧
  ∀ j, j ≠ c → a.peers[j]? = b.peers[j]?

/-- one event: connection, what arrived, clock -/
abbrev Ev := Nat × Incoming × Int

/-- the event loop over a history of events -/
def run (n : Node) (tr : List Ev) : Node := tr.foldl (fun n e => handleEvent C P n e.1 e.2.1 e.2.2) n

/-- what the property's "malformed input" covers, and more: everything a peer can send except a block that is accepted and a
transaction that is admitted — garbage, broken frames, a close; a message whose handling raises (unknown types, out of protocol
order, …); a rejected unsolicited block (while no bulk download is in progress: `C09.Inv`); a rejected transaction; and any
message that is neither a block nor a transaction -/
def MalformedAt (n : Node) (c : Nat) (ev : Incoming) (now : Int) : Prop :=
  match ev with
  | .msg i r m =>
    (∃ e, (handleMessage C P n c i r m now).2 = some e) ∨
    (∃ b, m = .dataBlock b ∧ r = 0 ∧ C09.Inv C P n ∧ ∀ cs', addBlock C P n.mgr.coinstate b now ≠ .ok cs') ∨
    (∃ t, m = .dataTx t ∧ ∀ m', addTxToPool C P n.mgr t ≠ .ok (m', true)) ∨
    (match m with | .dataBlock _ => False | .dataTx _ => False | _ => True)
  | _ => True

/-- along the history, every event of connection `c` is malformed in the state in which it arrives -/
def AllMalformedOn (c : Nat) : Node → List Ev → Prop
  | _, [] => True
  | n, (d, ev, now) :: rest => (d = c → MalformedAt C P n c ev now) ∧ AllMalformedOn c (handleEvent C P n d ev now) rest

theorem EqExcept.refl (c : Nat) (a : Node) : EqExcept c a a := ⟨rfl, rfl, rfl, rfl, rfl, fun _ _ => rfl⟩

theorem EqExcept.symm {c : Nat} {a b : Node} (h : EqExcept c a b) : EqExcept c b a :=
  ⟨h.1.symm, h.2.1.symm, h.2.2.1.symm, h.2.2.2.1.symm, h.2.2.2.2.1.symm, fun j hj => (h.2.2.2.2.2 j hj).symm⟩

theorem EqExcept.trans {c : Nat} {a b d : Node} (h1 : EqExcept c a b) (h2 : EqExcept c b d) : EqExcept c a d :=
  ⟨h1.1.trans h2.1, h1.2.1.trans h2.2.1, h1.2.2.1.trans h2.2.2.1, h1.2.2.2.1.trans h2.2.2.2.1,
   h1.2.2.2.2.1.trans h2.2.2.2.2.1, fun j hj => (h1.2.2.2.2.2 j hj).trans (h2.2.2.2.2.2 j hj)⟩

/-- the event loop never changes the node's own nonce -/
theorem handleEvent_nonce (n : Node) (c : Nat) (ev : Incoming) (now : Int) :
    (handleEvent C P n c ev now).nonce = n.nonce :=
  _root_.Model.handleEvent_nonce C P n c ev now

/-- helper: `EqExcept` is `EqExceptAt` of `Proofs/Stream.lean` -/
theorem eqExcept_iff_at (c : Nat) (a b : Node) : EqExcept c a b ↔ EqExceptAt c a b := Iff.rfl

/-- helper: a manager is its three fields -/
theorem chainMgr_eq {m m' : ChainMgr} (h1 : m.coinstate = m'.coinstate) (h2 : m.pool = m'.pool)
    (h3 : m.lastValid = m'.lastValid) : m = m' := by
  cases m; cases m'; simp only at h1 h2 h3; subst h1 h2 h3; rfl

/-- helper: containment plus the untouched nonce is `EqExcept` -/
theorem eqExcept_of_contained {n n' : Node} {c : Nat} (h : Contained n n' c) (hn : n'.nonce = n.nonce) :
    EqExcept c n' n :=
  ⟨chainMgr_eq h.1 h.2.1 h.2.2.1, h.2.2.2.1, h.2.2.2.2.1, hn, h.2.2.2.2.2.1, h.2.2.2.2.2.2⟩

/-- a malformed event leaves everything but its own connection as it was -/
theorem malformed_step (n : Node) (c : Nat) (ev : Incoming) (now : Int) (h : MalformedAt C P n c ev now) :
    EqExcept c (handleEvent C P n c ev now) n := by
  refine eqExcept_of_contained ?_ (handleEvent_nonce C P n c ev now)
  cases ev with
  | msg i r m =>
    rcases h with ⟨e, he⟩ | ⟨b, rfl, rfl, hinv, hrej⟩ | ⟨t, rfl, hrej⟩ | hm
    · exact handleEvent_msg_contained C P n c i r m now (handleMessage_err_contained C P n c i r m now e he)
    · exact handleEvent_msg_contained C P n c i 0 _ now
        (handleMessage_rejected_block_contained C P n c i b now hinv.lastValid hinv.wbufEmpty hinv.pool hrej)
    · exact rejected_transaction_contained C P n c i r t now hrej
    · exact protocol_messages_local C P n c i r m now hm
  | undecodable => exact garbage_contained C P n c now .undecodable trivial
  | badFrame => exact garbage_contained C P n c now .badFrame trivial
  | closed => exact garbage_contained C P n c now .closed trivial

/-- handling an event of connection `d ≠ c` neither reads nor writes anything of connection `c` beyond queueing broadcasts to
it: nodes that differ only in `c` still differ only in `c` afterwards -/
theorem noninterference_step (a b : Node) (c d : Nat) (hd : d ≠ c) (h : EqExcept c a b) (ev : Incoming) (now : Int) :
    EqExcept c (handleEvent C P a d ev now) (handleEvent C P b d ev now) :=
  handleEvent_eqExcept C P a b c d hd h ev now

/-- helper: the interleaving theorem from two start nodes that differ only in connection `c` -/
theorem interleaved_contained_gen (c : Nat) (tr : List Ev) : ∀ (a b : Node), EqExcept c a b → AllMalformedOn C P c a tr →
    EqExcept c (run C P a tr) (run C P b (tr.filter fun e => e.1 ≠ c)) := by
  induction tr with
  | nil => intro a b h _; exact h
  | cons e rest ih =>
    intro a b h hm
    obtain ⟨d, ev, now⟩ := e
    obtain ⟨hm1, hm2⟩ := hm
    by_cases hd : d = c
    · subst hd
      have hf : ((d, ev, now) :: rest).filter (fun e => e.1 ≠ d) = rest.filter (fun e => e.1 ≠ d) := by
        simp
      rw [hf]
      exact ih _ b ((malformed_step C P a d ev now (hm1 rfl)).trans h) hm2
    · have hf : ((d, ev, now) :: rest).filter (fun e => e.1 ≠ c) = (d, ev, now) :: rest.filter (fun e => e.1 ≠ c) := by
        simp [hd]
      rw [hf]
      exact ih _ _ (noninterference_step C P a b c d hd h ev now) hm2

/-- a whole stream of malformed events on one connection -/
theorem stream_contained (n : Node) (c : Nat) (tr : List Ev) (hc : ∀ e ∈ tr, e.1 = c)
    (hm : AllMalformedOn C P c n tr) : EqExcept c (run C P n tr) n := by
  induction tr generalizing n with
  | nil => exact EqExcept.refl c n
  | cons e rest ih =>
    obtain ⟨d, ev, now⟩ := e
    obtain ⟨hm1, hm2⟩ := hm
    have hd : d = c := hc (d, ev, now) (List.mem_cons_self ..)
    subst hd
    exact (ih _ (fun e he => hc e (List.mem_cons_of_mem _ he)) hm2).trans (malformed_step C P n d ev now (hm1 rfl))

/-- **C20 for histories**: whatever the other connections send and however the two are interleaved, the node ends as if
connection `c` had sent nothing -/
theorem interleaved_contained (n : Node) (c : Nat) (tr : List Ev) (hm : AllMalformedOn C P c n tr) :
    EqExcept c (run C P n tr) (run C P n (tr.filter fun e => e.1 ≠ c)) :=
  interleaved_contained_gen C P c tr n n (EqExcept.refl c n) hm

/-! ### non-vacuity -/

private def sPeer : PeerSt := ⟨true, false, true, true, [], false, []⟩
private def sNode : Node := ⟨⟨CoinState.empty, [], some CoinState.empty⟩, [], [], [sPeer, sPeer], 7⟩

/-- garbage, a header payload, a peer query and a close on connection 0, interleaved with two queries on connection 1: the
hypothesis holds, connection 1 got its two answers -/
private def sTrace : List Ev :=
  [(0, .msg 1 0 .getPeers, 0), (1, .msg 1 0 .getPeers, 0), (0, .msg 2 0 .dataHeader, 0), (1, .msg 2 0 .getPeers, 0),
   (0, .undecodable, 0), (0, .closed, 0)]

example : AllMalformedOn C P 0 sNode sTrace :=
  ⟨fun _ => .inr (.inr (.inr trivial)), fun h => absurd h (by decide), fun _ => .inr (.inr (.inr trivial)),
   fun h => absurd h (by decide), fun _ => trivial, fun _ => trivial, trivial⟩

example : ((run C P sNode sTrace).peers[1]?).map (·.outbox.length) = some 2 := rfl

end C20
end Model

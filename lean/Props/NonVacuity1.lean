import Props.C06
import Props.C12
import Props.C12Reach
import Props.C13

/-!
# Non-vacuity of the hypotheses of C06, C12, C12Reach, C13

For every theorem of these files that has hypotheses, a concrete instance is exhibited that meets
all hypotheses simultaneously; the theorem is then *applied* to that instance (so the instance is
checked against the exact statement), and — where cheap — the conclusion is shown to be
non-trivially true on it (a pool that really holds transactions, a block that really is adopted).

The instance: a toy `Crypto` with 32-byte, non-constant hashes (so that the well-formedness
side conditions of C06 hold), small `Params`, a history `G ← A`, two pending transactions `t1`,
`t2` spending the rewards of `G` and `A`, and the block the miner assembles from them.
Concrete facts about the executable model are closed by kernel evaluation (`decide +kernel`).
-/

namespace NonVacuity1
open Model

/-! ## helpers -/

def isOk {α : Type} (x : Except Err α) : Bool := match x with | .ok _ => true | .error _ => false
def getOk {α : Type} (x : Except Err α) (d : α) : α := match x with | .ok a => a | .error _ => d

theorem eq_ok_getOk {α : Type} {x : Except Err α} (d : α) (h : isOk x = true) :
    x = .ok (getOk x d) := by
  cases x with
  | ok a => rfl
  | error e => cases h

theorem ok_of_isOk {x : Except Err Unit} (h : isOk x = true) : x = .ok () := by
  cases x with
  | ok u => rfl
  | error e => cases h

theorem ne_ok_of_not_isOk {α : Type} {x : Except Err α} (h : isOk x = false) : ∀ a, x ≠ .ok a := by
  intro a e
  rw [e] at h
  cases h

instance : DecidablePred OutRef.WF := fun r => by unfold OutRef.WF; infer_instance
instance : DecidablePred Sig.WF := fun s => by cases s <;> unfold Sig.WF <;> infer_instance
instance : DecidablePred Input.WF := fun i => by unfold Input.WF; infer_instance
instance : DecidablePred Output.WF := fun o => by unfold Output.WF; infer_instance
instance : DecidablePred Tx.WF := fun t => by unfold Tx.WF; infer_instance
instance : DecidablePred Evidence.WF := fun e => by unfold Evidence.WF; infer_instance
instance : DecidablePred Summary.WF := fun s => by unfold Summary.WF; infer_instance
instance : DecidablePred Header.WF := fun h => by unfold Header.WF; infer_instance
instance : DecidablePred BlockC.WF := fun b => by unfold BlockC.WF; infer_instance

/-- the introduction direction of `addTxToPool` (`ChainMgr` has no decidable equality) -/
theorem addTx_intro (C : Crypto) (P : Params) (m : ChainMgr) (t : CTx)
    (h1 : validateTxByItself P t = .ok ()) (h2 : validateTxAtHead C m.coinstate t = .ok ())
    (h3 : (allRefs (m.pool ++ [t])).Nodup) :
    addTxToPool C P m t = .ok ({ m with pool := m.pool ++ [t] }, true) := by
  unfold addTxToPool
  simp only [h1, h2, ok_bind, require, h3, decide_true, if_true]

/-- a transaction that is valid but spends an output already spent in the pool is refused with
`(m, false)` -/
theorem addTx_conflict (C : Crypto) (P : Params) (m : ChainMgr) (t : CTx)
    (h1 : validateTxByItself P t = .ok ()) (h2 : validateTxAtHead C m.coinstate t = .ok ())
    (h3 : ¬ (allRefs (m.pool ++ [t])).Nodup) :
    addTxToPool C P m t = .ok (m, false) := by
  unfold addTxToPool
  simp only [h1, h2, ok_bind, require, h3, decide_false]
  rfl

/-! ## the instance -/

def hsum (bs : Bytes) : UInt8 := bs.foldl (· + ·) 0
def pad32 (x : UInt8) : Bytes := zeros 31 ++ [x]

/-- 32-byte hashes depending on their input; `sha256d` always lands below the target `pad32 16`;
every signature verifies -/
def nvC : Crypto :=
  ⟨fun bs => pad32 (hsum bs % 16), fun bs => pad32 (hsum bs), fun a b => pad32 (hsum (a ++ b)),
   fun _ _ _ => true⟩

/-- `MAX_SASHIMI` 100, block size 1000, 30 s of future, subsidy 10, 8 samples of 4 bytes,
no checkpoint horizon (−1), retarget interval 10 -/
def nvP : Params := ⟨100, 1000, 30, 10, 10, 10, 10, 10, 8, 4, -1, [], 1, 5, 1000, 1, 1, 1, 1, 1⟩

def tgt : Bytes := pad32 16
def pkA : Bytes := List.replicate 64 5
def pkB : Bytes := List.replicate 64 6

/-- a reward of 10 to `pkA`, cached transaction id `pad32 id` -/
def cb (h : Nat) (id : UInt8) : CTx :=
  ⟨⟨[⟨thinAir, .coinbase h []⟩], [⟨10, pkA⟩]⟩, some (pad32 id)⟩

def G : Block :=
  ⟨⟨⟨0, zeros 32, pad32 70, 0, tgt, 0⟩, ⟨zeros 32, zeros 32, zeros 32⟩⟩, [cb 0 70], some (pad32 101)⟩

def sG : CoinState := getOk (foldBlocks nvC .empty [G]) .empty

def sumA : Summary := ⟨1, pad32 101, pad32 71, 1, tgt, 0⟩
def evA : Evidence := getOk (constructEvidence nvC nvP sG sumA 1 [cb 1 71]) ⟨[], [], []⟩
def A : Block := ⟨⟨sumA, evA⟩, [cb 1 71], some (pad32 102)⟩

/-- the served state: `G ← A`, head `A` -/
def sGA : CoinState := getOk (foldBlocks nvC .empty [G, A]) .empty

/-- spends the reward of `G` (10), pays 7: fee 3 -/
def t1 : CTx := ⟨⟨[⟨⟨pad32 70, 0⟩, .secp (zeros 64)⟩], [⟨7, pkB⟩]⟩, some (pad32 81)⟩
/-- spends the reward of `A` (10), pays 10: fee 0 -/
def t2 : CTx := ⟨⟨[⟨⟨pad32 71, 0⟩, .secp (zeros 64)⟩], [⟨10, pkB⟩]⟩, some (pad32 82)⟩
/-- spends the reward of `G` again (conflicts with `t1`) -/
def t1' : CTx := ⟨⟨[⟨⟨pad32 70, 0⟩, .secp (zeros 64)⟩], [⟨5, pkA⟩]⟩, some (pad32 83)⟩

def m0 : ChainMgr := ⟨sGA, [], none⟩
def m1 : ChainMgr := ⟨sGA, [t1], none⟩
def m2 : ChainMgr := ⟨sGA, [t1, t2], none⟩

theorem foldG : foldBlocks nvC .empty [G] = .ok sG := eq_ok_getOk _ (by decide +kernel)
theorem foldGA : foldBlocks nvC .empty [G, A] = .ok sGA := eq_ok_getOk _ (by decide +kernel)

theorem wfG : WFArrivals nvC [G] :=
  .genesis G rfl rfl (by show pad32 101 ≠ zeros 32; decide)

theorem wfGA : WFArrivals nvC [G, A] :=
  .snoc [G] A G wfG (List.mem_singleton.2 rfl) rfl rfl
    (by show pad32 102 ≠ zeros 32; decide)
    (by intro c hc; rw [List.mem_singleton.1 hc]; show pad32 101 ≠ pad32 102; decide)

/-- `A` was itself accepted by full validation on top of `G` (the state is not hand-made) -/
theorem A_accepted : isOk (addBlock nvC nvP sG A 0) = true := by decide +kernel

/-! ## C13 -/

theorem t1_itself : validateTxByItself nvP t1 = .ok () := ok_of_isOk (by decide +kernel)
theorem t2_itself : validateTxByItself nvP t2 = .ok () := ok_of_isOk (by decide +kernel)
theorem t1'_itself : validateTxByItself nvP t1' = .ok () := ok_of_isOk (by decide +kernel)
theorem t1_atHead : validateTxAtHead nvC sGA t1 = .ok () := ok_of_isOk (by decide +kernel)
theorem t2_atHead : validateTxAtHead nvC sGA t2 = .ok () := ok_of_isOk (by decide +kernel)
theorem t1'_atHead : validateTxAtHead nvC sGA t1' = .ok () := ok_of_isOk (by decide +kernel)

theorem submit1 : addTxToPool nvC nvP m0 t1 = .ok (m1, true) :=
  addTx_intro nvC nvP m0 t1 t1_itself t1_atHead (by decide +kernel)

theorem submit2 : addTxToPool nvC nvP m1 t2 = .ok (m2, true) :=
  addTx_intro nvC nvP m1 t2 t2_itself t2_atHead (by decide +kernel)

theorem submit_conflict : addTxToPool nvC nvP m1 t1' = .ok (m1, false) :=
  addTx_conflict nvC nvP m1 t1' t1'_itself t1'_atHead (by decide +kernel)

/-- `admitted_only_if_valid_and_compatible`: hypothesis met by `m0`, `t1`; the resulting pool is
`[t1]` -/
theorem nonvacuous_admitted_only_if_valid_and_compatible :
    ∃ m m' t, addTxToPool nvC nvP m t = .ok (m', true) ∧ m'.pool = [t1] :=
  ⟨m0, m1, t1, submit1, rfl⟩

example := C13.admitted_only_if_valid_and_compatible nvC nvP m0 m1 t1 submit1

/-- `not_admitted_leaves_pool`: hypothesis met by a double spend against a non-empty pool -/
theorem nonvacuous_not_admitted_leaves_pool :
    ∃ m m' t, addTxToPool nvC nvP m t = .ok (m', false) ∧ m.pool ≠ [] :=
  ⟨m1, m1, t1', submit_conflict, by decide⟩

example := C13.not_admitted_leaves_pool nvC nvP m1 m1 t1' submit_conflict

/-- `invalid_or_conflicting_not_admitted`: each disjunct can be met; here the third (conflict) by a
transaction for which the first two do NOT hold, and the first by a transaction without outputs -/
theorem nonvacuous_invalid_or_conflicting_not_admitted :
    ¬ (allRefs (m1.pool ++ [t1'])).Nodup ∧
    validateTxByItself nvP ⟨⟨t1.tx.inputs, []⟩, none⟩ ≠ .ok () ∧
    validateTxAtHead nvC sGA ⟨⟨[⟨⟨pad32 99, 0⟩, .secp (zeros 64)⟩], [⟨1, pkA⟩]⟩, none⟩ ≠ .ok () :=
  ⟨by decide +kernel, fun h => ne_ok_of_not_isOk (by decide +kernel) () h,
    fun h => ne_ok_of_not_isOk (by decide +kernel) () h⟩

example := C13.invalid_or_conflicting_not_admitted nvC nvP m1 t1'
  (Or.inr (Or.inr nonvacuous_invalid_or_conflicting_not_admitted.1))

/-- every interleaving: two submissions from the empty pool -/
theorem reach_m0 : C13.Reachable nvC nvP m0 := .init sGA none
theorem reach_m1 : C13.Reachable nvC nvP m1 := .submit m0 m1 t1 true reach_m0 submit1
theorem reach_m2 : C13.Reachable nvC nvP m2 := .submit m1 m2 t2 true reach_m1 submit2

/-- `pool_inv_reachable`: a reachable manager with a pool of two transactions -/
theorem nonvacuous_pool_inv_reachable : ∃ m, C13.Reachable nvC nvP m ∧ m.pool = [t1, t2] :=
  ⟨m2, reach_m2, rfl⟩

theorem poolInv_m1 : C13.PoolInv nvC nvP m1 := C13.pool_inv_reachable nvC nvP m1 reach_m1
theorem poolInv_m2 : C13.PoolInv nvC nvP m2 := C13.pool_inv_reachable nvC nvP m2 reach_m2

/-- `submit_preserves`: invariant on a non-empty pool, admitted submission (and a refused one) -/
theorem nonvacuous_submit_preserves :
    ∃ m m' t r, C13.PoolInv nvC nvP m ∧ addTxToPool nvC nvP m t = .ok (m', r) ∧ m.pool = [t1] ∧
      m'.pool = [t1, t2] :=
  ⟨m1, m2, t2, true, poolInv_m1, submit2, rfl, rfl⟩

example := C13.submit_preserves nvC nvP m1 m2 t2 true poolInv_m1 submit2
example := C13.submit_preserves nvC nvP m1 m1 t1' false poolInv_m1 submit_conflict

/-- `setState_preserves`: pool `[t1, t2]`, head moved back to `G` (a reorganisation): `t2`, which
spends the reward of `A`, is evicted and `t1` stays -/
theorem nonvacuous_setState_preserves :
    ((∀ t ∈ m2.pool, validateTxByItself nvP t = .ok ()) ∧ (allRefs m2.pool).Nodup) ∧
    (setCoinstate nvC m2 sG true).pool = [t1] :=
  ⟨⟨fun t ht => (poolInv_m2.1 t ht).1, poolInv_m2.2⟩, by decide +kernel⟩

example := C13.setState_preserves nvC nvP m2 sG true nonvacuous_setState_preserves.1

/-- a reachable manager after a head change, with a non-empty pool -/
theorem reach_after_reorg : C13.Reachable nvC nvP (setCoinstate nvC m2 sG true) :=
  .setState m2 sG true reach_m2

/-- `no_shared_output`: two distinct positions of a reachable pool, an input of each -/
theorem nonvacuous_no_shared_output :
    ∃ (m : ChainMgr) (t₁ t₂ : CTx) (i₁ i₂ : Input) (n₁ n₂ : Nat), C13.Reachable nvC nvP m ∧ n₁ < n₂ ∧ m.pool[n₁]? = some t₁ ∧
      m.pool[n₂]? = some t₂ ∧ i₁ ∈ t₁.tx.inputs ∧ i₂ ∈ t₂.tx.inputs :=
  ⟨m2, t1, t2, ⟨⟨pad32 70, 0⟩, .secp (zeros 64)⟩, ⟨⟨pad32 71, 0⟩, .secp (zeros 64)⟩, 0, 1,
    reach_m2, by decide, rfl, rfl, List.mem_singleton.2 rfl, List.mem_singleton.2 rfl⟩

example := C13.no_shared_output nvC nvP m2 reach_m2 t1 t2 ⟨⟨pad32 70, 0⟩, .secp (zeros 64)⟩
  ⟨⟨pad32 71, 0⟩, .secp (zeros 64)⟩ 0 1 (by decide) rfl rfl (List.mem_singleton.2 rfl)
  (List.mem_singleton.2 rfl)

/-! ## C12 -/

/-- the miner's candidate from the served state `G ← A` and the pool `[t1, t2]`, clock 5 -/
def cand : Summary × Nat × List CTx :=
  getOk (minerCandidate nvC nvP m2 pkB 5 0) (⟨0, [], [], 0, [], 0⟩, 0, [])
def cS : Summary := cand.1
def cH : Nat := cand.2.1
def cTxs : List CTx := cand.2.2
def cEv : Evidence :=
  getOk (evidenceAfterScrypt nvC nvP sGA (summaryHash nvC cS cH) cS cH cTxs) ⟨[], [], []⟩
/-- the assembled block -/
def B : Block := Block.fresh ⟨cS, cEv⟩ cTxs

theorem cand_ok : minerCandidate nvC nvP m2 pkB 5 0 = .ok (cS, cH, cTxs) :=
  show _ = Except.ok cand from eq_ok_getOk _ (by decide +kernel)

theorem cEv_ok : evidenceAfterScrypt nvC nvP m2.coinstate (summaryHash nvC cS cH) cS cH cTxs = .ok cEv :=
  eq_ok_getOk _ (by decide +kernel)

/-- `candidate_shape`: hypothesis met with a pool of two transactions; the candidate holds the
reward plus both, the reward pays 10 + 3 -/
theorem nonvacuous_candidate_shape :
    ∃ m pk clock nonce s h txs, minerCandidate nvC nvP m pk clock nonce = .ok (s, h, txs) ∧
      m.pool = [t1, t2] ∧ txs.length = 3 ∧ txs.tail = [t1, t2] ∧
      txs.head?.map (·.tx.outputs) = some [⟨13, pkB⟩] ∧ h = 2 :=
  ⟨m2, pkB, 5, 0, cS, cH, cTxs, cand_ok, rfl, by decide +kernel, by decide +kernel,
    by decide +kernel, by decide +kernel⟩

example := C12.candidate_shape nvC nvP m2 pkB 5 0 cS cH cTxs cand_ok

theorem B_pow : bytesLt (nvC.sha256d (encHeader ⟨cS, cEv⟩)) cS.target = true := by decide +kernel
theorem B_clock : (cS.timestamp : Int) ≤ 0 + nvP.maxFutureBlockTime := by decide +kernel
theorem B_size : (encBlock (Block.fresh ⟨cS, cEv⟩ cTxs)).length ≤ nvP.maxBlockSize := by decide +kernel
theorem B_hor : nvP.maxKnownHeight < (cH : Int) := by decide +kernel
theorem m2_hz : m2.coinstate.current ≠ some (zeros 32) := by decide +kernel
theorem m2_hbh : m2.coinstate.current.bind m2.coinstate.byHeightAt.get? ≠ none := by decide +kernel

/-- `assembled_block_valid_partial`: all ten hypotheses met at once (pool invariant on a pool of
two, candidate, evidence, proof of work, clock, size, horizon, interval, head not zero, index
stored) -/
theorem nonvacuous_assembled_block_valid_partial :
    ∃ m pk clock nonce s h txs now ev,
      C13.PoolInv nvC nvP m ∧ minerCandidate nvC nvP m pk clock nonce = .ok (s, h, txs) ∧
      evidenceAfterScrypt nvC nvP m.coinstate (summaryHash nvC s h) s h txs = .ok ev ∧
      bytesLt (nvC.sha256d (encHeader ⟨s, ev⟩)) s.target = true ∧
      (s.timestamp : Int) ≤ now + nvP.maxFutureBlockTime ∧
      (encBlock (Block.fresh ⟨s, ev⟩ txs)).length ≤ nvP.maxBlockSize ∧
      nvP.maxKnownHeight < (h : Int) ∧ 0 < nvP.retargetInterval ∧
      m.coinstate.current ≠ some (zeros 32) ∧
      m.coinstate.current.bind m.coinstate.byHeightAt.get? ≠ none ∧
      m.pool = [t1, t2] :=
  ⟨m2, pkB, 5, 0, cS, cH, cTxs, 0, cEv, poolInv_m2, cand_ok, cEv_ok, B_pow, B_clock, B_size, B_hor,
    by decide, m2_hz, m2_hbh, rfl⟩

theorem B_accepted_by_theorem : ∃ cs', addBlock nvC nvP m2.coinstate B 0 = .ok cs' :=
  C12.assembled_block_valid_partial nvC nvP m2 pkB 5 0 cS cH cTxs 0 poolInv_m2 cand_ok cEv cEv_ok
    B_pow B_clock B_size B_hor (by decide) m2_hz m2_hbh

/-- the conclusion, independently: the block really is accepted, and becomes the head at height 2 -/
def sGAB : CoinState := getOk (addBlock nvC nvP sGA B 0) .empty
theorem B_accepted : addBlock nvC nvP sGA B 0 = .ok sGAB := eq_ok_getOk _ (by decide +kernel)
theorem B_is_head : sGAB.head.map (·.height) = some 2 ∧ sGAB.current = some (B.id nvC) := by
  decide +kernel

/-- `assembled_block_valid_on_built_states` (C12Reach): the same instance, the two chain-state
hypotheses replaced by a well-formed history `G ← A` that folds to the served state -/
theorem nonvacuous_assembled_block_valid_on_built_states :
    ∃ bs m, WFArrivals nvC bs ∧ foldBlocks nvC .empty bs = .ok m.coinstate ∧
      C13.PoolInv nvC nvP m ∧ m.pool = [t1, t2] ∧ bs.length = 2 :=
  ⟨[G, A], m2, wfGA, foldGA, poolInv_m2, rfl, rfl⟩

example : ∃ cs', addBlock nvC nvP m2.coinstate (Block.fresh ⟨cS, cEv⟩ cTxs) 0 = .ok cs' :=
  C12.assembled_block_valid_on_built_states nvC nvP [G, A] m2 wfGA foldGA pkB 5 0 cS cH cTxs 0
    poolInv_m2 cand_ok cEv cEv_ok B_pow B_clock B_size B_hor (by decide)

/-- the auxiliary theorems of C12Reach on the same history -/
example := C12.built_state_current_mem nvC [G, A] sGA wfGA foldGA
example := C12.built_state_index_all nvC [G, A] sGA wfGA foldGA A (by simp)
example := C12.built_state_head_not_zero nvC [G, A] sGA wfGA foldGA
example := C12.built_state_head_index nvC [G, A] sGA wfGA foldGA

/-! ### the clock corner (D5): the head is fine, the miner's clock is 100, the validating clock 0 -/

def candF : Summary × Nat × List CTx :=
  getOk (minerCandidate nvC nvP m2 pkB 100 0) (⟨0, [], [], 0, [], 0⟩, 0, [])
def evF : Evidence :=
  getOk (evidenceAfterScrypt nvC nvP sGA (summaryHash nvC candF.1 candF.2.1) candF.1 candF.2.1 candF.2.2)
    ⟨[], [], []⟩
def BF : Block := Block.fresh ⟨candF.1, evF⟩ candF.2.2

/-- `future_head_candidate_rejected`: hypothesis met by an otherwise perfectly assembled block -/
theorem nonvacuous_future_head_candidate_rejected :
    (BF.timestamp : Int) > 0 + nvP.maxFutureBlockTime ∧
    isOk (addBlock nvC nvP sGA BF 100) = true := by
  decide +kernel

example := C12.future_head_candidate_rejected nvC nvP sGA BF 0
  nonvacuous_future_head_candidate_rejected.1

/-! ### `minerFound` -/

/-- one peer that has exchanged greetings, one that has not -/
def p1 : PeerSt := ⟨true, true, true, true, [], false, []⟩
def p2 : PeerSt := ⟨true, true, true, false, [.hello], false, []⟩
def n0 : Node := ⟨m2, [], [G, A], [p1, p2], 0⟩

def found : HResult × Option Block := minerFound nvC nvP n0 sGA cS cH cTxs (summaryHash nvC cS cH) 0
def n1 : Node := found.1.1

theorem found_shape {r : HResult × Option Block} {b : Block} (h1 : r.1.2.isNone = true)
    (h2 : r.2 = some b) : r = ((r.1.1, none), some b) := by
  obtain ⟨⟨n, e⟩, o⟩ := r
  cases e with
  | none => simp only at h2; rw [h2]
  | some e => cases h1

theorem failed_shape {r : HResult × Option Block} (h1 : r.1.2.isSome = true)
    (h2 : r.2.isSome = true) : ∃ n e b, r = ((n, some e), some b) := by
  obtain ⟨⟨n, e⟩, o⟩ := r
  cases e with
  | none => cases h1
  | some e =>
    cases o with
    | none => cases h2
    | some b => exact ⟨n, e, b, rfl⟩

theorem found_ok : minerFound nvC nvP n0 sGA cS cH cTxs (summaryHash nvC cS cH) 0 = ((n1, none), some B) :=
  found_shape (r := found) (by decide +kernel) (by decide +kernel)

theorem B_sol : bytesLt (B.id nvC) B.target = true := by decide +kernel

/-- `found_block_adopted`: both hypotheses met; afterwards the block is the head, the pool (both
transactions are in the block) is empty, the store holds three blocks and exactly the peer that
exchanged greetings was sent the block -/
theorem nonvacuous_found_block_adopted :
    ∃ n cs s h txs sh now n' b,
      minerFound nvC nvP n cs s h txs sh now = ((n', none), some b) ∧
      bytesLt (b.id nvC) b.target = true ∧
      n.mgr.pool = [t1, t2] ∧ n'.mgr.pool = [] ∧ b.txs.length = 3 ∧
      n'.mgr.coinstate.head.map (·.height) = some 2 ∧ n'.disk.length = 3 ∧
      n.peers.map (·.outbox.length) = [0, 1] ∧ n'.peers.map (·.outbox.length) = [1, 1] :=
  ⟨n0, sGA, cS, cH, cTxs, summaryHash nvC cS cH, 0, n1, B, found_ok, B_sol, rfl, by decide +kernel,
    by decide +kernel, by decide +kernel, by decide +kernel, by decide +kernel, by decide +kernel⟩

example := C12.found_block_adopted nvC nvP n0 sGA cS cH cTxs (summaryHash nvC cS cH) 0 n1 B found_ok B_sol

/-- `invalid_found_block_not_adopted`: hypothesis met by the clock-corner candidate (below target,
refused by the node's own validation) -/
theorem nonvacuous_invalid_found_block_not_adopted :
    ∃ n' e b, minerFound nvC nvP n0 sGA candF.1 candF.2.1 candF.2.2
      (summaryHash nvC candF.1 candF.2.1) 0 = ((n', some e), some b) :=
  failed_shape (by decide +kernel) (by decide +kernel)

example : ∃ n', n' = n0 := by
  obtain ⟨n', e, b, h⟩ := nonvacuous_invalid_found_block_not_adopted
  exact ⟨n', C12.invalid_found_block_not_adopted nvC nvP n0 sGA _ _ _ _ 0 n' b e h⟩

/-! ## C06

The block is `B`, the block the miner assembled above (reward + `t1` + `t2`), accepted by full
validation on top of `G ← A`; it is well-formed on the wire (32-byte hashes, 64-byte keys and
signatures). -/

theorem wfB : B.content.WF := by decide +kernel

/-- `truncation_undecodable`: hypotheses met (`B` is 675 bytes long; cut at 100, i.e. inside the
header, and at 674, i.e. one byte short); the untruncated encoding does decode -/
theorem nonvacuous_truncation_undecodable :
    B.content.WF ∧ 100 < (encBlock B).length ∧ 674 < (encBlock B).length ∧
    (decBlock nvC.sha256d (encBlock B)).isSome = true :=
  ⟨wfB, by decide +kernel, by decide +kernel, by decide +kernel⟩

example := C06.truncation_undecodable nvC B wfB 100 nonvacuous_truncation_undecodable.2.1
example := C06.truncation_undecodable nvC B wfB 674 nonvacuous_truncation_undecodable.2.2.1

/-- `tx_truncation_undecodable` -/
theorem nonvacuous_tx_truncation_undecodable :
    t1.tx.WF ∧ 50 < (encTx t1.tx).length ∧ (Tx.codec.dec (encTx t1.tx)).isSome = true :=
  ⟨by decide +kernel, by decide +kernel, by decide +kernel⟩

example := C06.tx_truncation_undecodable t1.tx nonvacuous_tx_truncation_undecodable.1 50
  nonvacuous_tx_truncation_undecodable.2.1

/-- the same block as another Python object (a cached id), validated at another time -/
def B' : Block := ⟨B.header, B.txs, some (pad32 103)⟩
def sGAB' : CoinState := getOk (addBlock nvC nvP sGA B' 7) .empty
theorem B'_accepted : addBlock nvC nvP sGA B' 7 = .ok sGAB' := eq_ok_getOk _ (by decide +kernel)
theorem B_above : nvP.maxKnownHeight < (B.height : Int) := by decide +kernel

/-- `evidence_flip_rejected`: all five hypotheses met with `b' ≠ b` (the conclusion forces the
evidence fields to agree, so `b'` can differ from `b` in the cached id only) -/
theorem nonvacuous_evidence_flip_rejected :
    ∃ cs cs' cs'' b b' now now', nvP.maxKnownHeight < (b.height : Int) ∧
      b'.header.summary = b.header.summary ∧ b'.txs = b.txs ∧
      addBlock nvC nvP cs b now = .ok cs' ∧ addBlock nvC nvP cs b' now' = .ok cs'' ∧
      b' ≠ b ∧ b.txs.length = 3 :=
  ⟨sGA, sGAB, sGAB', B, B', 0, 7, B_above, rfl, rfl, B_accepted, B'_accepted, by decide +kernel,
    by decide +kernel⟩

example := C06.evidence_flip_rejected nvC nvP sGA sGAB sGAB' B B' 0 7 B_above rfl rfl B_accepted
  B'_accepted

/-- `commit`, first instance: the same content as two objects -/
theorem nonvacuous_commit :
    ∃ cs cs' cs'' b b' now now', nvP.maxKnownHeight < (b.height : Int) ∧
      nvP.maxKnownHeight < (b'.height : Int) ∧ b.content.WF ∧ b'.content.WF ∧
      addBlock nvC nvP cs b now = .ok cs' ∧ addBlock nvC nvP cs b' now' = .ok cs'' ∧
      b.header.evidence = b'.header.evidence ∧ b' ≠ b :=
  ⟨sGA, sGAB, sGAB', B, B', 0, 7, B_above, B_above, wfB, wfB, B_accepted, B'_accepted, rfl,
    by decide +kernel⟩

example := C06.commit nvC nvP sGA sGAB sGAB' B B' 0 7 B_above B_above wfB wfB B_accepted
  B'_accepted rfl

/-- `commit`, second instance: a block with a *different encoding* (timestamp 4 and nonce 1
instead of 5 and 0), accepted against the same state with the same evidence — possible only
because the toy hash collides (byte sums), which is exactly what the theorem then reports -/
def Bc : Block :=
  Block.fresh ⟨⟨cS.height, cS.prev, cS.merkleRoot, 4, cS.target, 1⟩, cEv⟩ cTxs
def sGABc : CoinState := getOk (addBlock nvC nvP sGA Bc 0) .empty
theorem Bc_accepted : addBlock nvC nvP sGA Bc 0 = .ok sGABc := eq_ok_getOk _ (by decide +kernel)
theorem wfBc : Bc.content.WF := by decide +kernel
theorem Bc_enc_ne : encBlock Bc ≠ encBlock B := by decide +kernel

theorem commit_reports_collision :
    Collision nvC.blake2 ∨ Collision (Function.uncurry nvC.scrypt) := by
  rcases C06.commit nvC nvP sGA sGAB sGABc B Bc 0 0 B_above (by decide +kernel) wfB wfBc B_accepted
    Bc_accepted rfl with h | h
  · exact absurd h.symm Bc_enc_ne
  · exact h

/-- `same_id_same_content`: ids as the decoder caches them (the hash of the header) -/
def Bd : Block := ⟨B.header, B.txs, some (nvC.sha256d (encHeader B.header))⟩
def sGABd : CoinState := getOk (addBlock nvC nvP sGA Bd 3) .empty
theorem Bd_accepted : addBlock nvC nvP sGA Bd 3 = .ok sGABd := eq_ok_getOk _ (by decide +kernel)

example := C06.same_id_same_content nvC nvP sGA sGAB sGABd B Bd 0 3 B_above B_above wfB wfB rfl rfl
  B_accepted Bd_accepted rfl

/-- `flip_outside_evidence_rejected_partial`: the nonce altered (one bit), the evidence field as
it was: all seven hypotheses met, and the altered block really is rejected (first disjunct) -/
def Bn : Block :=
  Block.fresh ⟨⟨cS.height, cS.prev, cS.merkleRoot, cS.timestamp, cS.target, 1⟩, cEv⟩ cTxs
theorem wfBn : Bn.content.WF := by decide +kernel
theorem Bn_enc_ne : encBlock Bn ≠ encBlock B := by decide +kernel
theorem Bn_above : nvP.maxKnownHeight < (Bn.height : Int) := by decide +kernel

theorem nonvacuous_flip_outside_evidence_rejected_partial :
    ∃ cs cs' b b' now, nvP.maxKnownHeight < (b.height : Int) ∧
      nvP.maxKnownHeight < (b'.height : Int) ∧ b.content.WF ∧ b'.content.WF ∧
      addBlock nvC nvP cs b now = .ok cs' ∧ b'.header.evidence = b.header.evidence ∧
      encBlock b' ≠ encBlock b ∧ (∀ now' cs'', now' = (0 : Int) → addBlock nvC nvP cs b' now' ≠ .ok cs'') :=
  ⟨sGA, sGAB, B, Bn, 0, B_above, Bn_above, wfB, wfBn, B_accepted, rfl, Bn_enc_ne,
    fun _ cs'' h => h ▸ ne_ok_of_not_isOk (by decide +kernel) cs''⟩

example := C06.flip_outside_evidence_rejected_partial nvC nvP sGA sGAB B Bn 0 0 B_above Bn_above wfB
  wfBn B_accepted rfl Bn_enc_ne

end NonVacuity1

import Model.Types
import Proofs.Types

/-!
# C07 — canonical identity: one encoding per value, id is the hash of it

Statements only; helper lemmas are in `Proofs/`. `RT c wf` is
`∀ a r, wf a → c.dec (c.enc a ++ r) = some (a, r)` and `Canon c wf` is
`∀ bs a r, c.dec bs = some (a, r) → bs = c.enc a ++ r ∧ wf a` (Proofs/Codec.lean).
-/

namespace Model
namespace C07
open Codec

/-! ## every consensus object survives encode-then-decode, and every accepted byte string
re-encodes to exactly the bytes consumed -/

theorem vlq_roundtrip (n : Nat) (r : Bytes) : decodeVlq (encodeVlq n ++ r) = some (n, r) :=
  decodeVlq_encodeVlq n r

theorem vlq_canonical (bs : Bytes) (n : Nat) (r : Bytes) (h : decodeVlq bs = some (n, r)) :
    bs = encodeVlq n ++ r := encodeVlq_of_decodeVlq bs n r h

theorem outref_roundtrip : RT OutRef.codec OutRef.WF := OutRef.rt
theorem outref_canonical : Canon OutRef.codec OutRef.WF := OutRef.canon
theorem signature_roundtrip : RT Sig.codec Sig.WF := Sig.rt
theorem signature_canonical : Canon Sig.codec Sig.WF := Sig.canon
theorem publickey_roundtrip : RT pkCodec (fun k => k.length = 64) := pk_rt
theorem publickey_canonical : Canon pkCodec (fun k => k.length = 64) := pk_canon
theorem input_roundtrip : RT Input.codec Input.WF := Input.rt
theorem input_canonical : Canon Input.codec Input.WF := Input.canon
theorem output_roundtrip : RT Output.codec Output.WF := Output.rt
theorem output_canonical : Canon Output.codec Output.WF := Output.canon
theorem transaction_roundtrip : RT Tx.codec Tx.WF := Tx.rt
theorem transaction_canonical : Canon Tx.codec Tx.WF := Tx.canon
theorem evidence_roundtrip : RT Evidence.codec Evidence.WF := Evidence.rt
theorem evidence_canonical : Canon Evidence.codec Evidence.WF := Evidence.canon
theorem summary_roundtrip : RT Summary.codec Summary.WF := Summary.rt
theorem summary_canonical : Canon Summary.codec Summary.WF := Summary.canon
theorem header_roundtrip : RT Header.codec Header.WF := Header.rt
theorem header_canonical : Canon Header.codec Header.WF := Header.canon
theorem block_roundtrip : RT BlockC.codec BlockC.WF := BlockC.rt
theorem block_canonical : Canon BlockC.codec BlockC.WF := BlockC.canon

/-- a value has a single accepted encoding: two byte strings that decode to the same value
leaving the same rest are the same bytes -/
theorem block_single_encoding (bs bs' : Bytes) (b : BlockC) (r : Bytes)
    (h : BlockC.codec.dec bs = some (b, r)) (h' : BlockC.codec.dec bs' = some (b, r)) : bs = bs' := by
  rw [(BlockC.canon bs b r h).1, (BlockC.canon bs' b r h').1]

theorem transaction_single_encoding (bs bs' : Bytes) (t : Tx) (r : Bytes)
    (h : Tx.codec.dec bs = some (t, r)) (h' : Tx.codec.dec bs' = some (t, r)) : bs = bs' := by
  rw [(Tx.canon bs t r h).1, (Tx.canon bs' t r h').1]

/-! ## every wire message survives encode-then-decode -/

theorem message_header_roundtrip : RT MsgHeader.codec MsgHeader.WF := MsgHeader.rt

theorem message_roundtrip (m : Msg) (r : Bytes) (h : m.WF) : Msg.dec (m.enc ++ r) = some (m, r) :=
  Msg.rt m r h

theorem frame_roundtrip (hd : MsgHeader) (m : Msg) (h₁ : hd.WF) (h₂ : m.WF) :
    decodeFrame (encodeFrame hd m) = some (hd, m) := frame_rt hd m h₁ h₂

/-! ## the id of an object obtained from bytes or built in memory is the double SHA-256 of its
canonical encoding -/

theorem consumed_append (a r : Bytes) : consumed (a ++ r) r = a := by
  simp [consumed]

/-- a transaction obtained from bytes: the bytes consumed are its encoding, its cached hash is
the hash of that encoding, hence so is its id -/
theorem decTx_id (C : Crypto) (bs : Bytes) (t : CTx) (r : Bytes)
    (h : decTx C.sha256d bs = some (t, r)) :
    bs = encTx t.tx ++ r ∧ t.tx.WF ∧ t.id C = C.sha256d (encTx t.tx) := by
  simp only [decTx] at h
  split at h
  · simp at h
  · rename_i t' r' hd
    simp only [Option.some.injEq, Prod.mk.injEq] at h
    obtain ⟨h1, h2⟩ := h
    subst h1; subst h2
    obtain ⟨e, w⟩ := Tx.canon _ _ _ hd
    refine ⟨e, w, ?_⟩
    simp only [CTx.id]
    rw [e]
    simp only [encTx, consumed_append]

theorem decTxN_id (C : Crypto) : ∀ (n : Nat) (bs : Bytes) (l : List CTx) (r : Bytes),
    decTxN C.sha256d n bs = some (l, r) →
      bs = encAll Tx.codec (l.map (·.tx)) ++ r ∧ l.length = n ∧
      ∀ t ∈ l, t.tx.WF ∧ t.id C = C.sha256d (encTx t.tx) := by
  intro n
  induction n with
  | zero =>
    intro bs l r h
    simp only [decTxN, Option.some.injEq, Prod.mk.injEq] at h
    obtain ⟨h1, h2⟩ := h
    subst h1; subst h2
    simp [encAll]
  | succ n ih =>
    intro bs l r h
    simp only [decTxN] at h
    split at h
    · simp at h
    · rename_i a r₁ hd₁
      split at h
      · simp at h
      · rename_i as r₂ hd₂
        simp only [Option.some.injEq, Prod.mk.injEq] at h
        obtain ⟨h1, h2⟩ := h
        subst h1; subst h2
        obtain ⟨e₁, w₁, i₁⟩ := decTx_id C _ _ _ hd₁
        obtain ⟨e₂, len, w₂⟩ := ih _ _ _ hd₂
        refine ⟨?_, by simp [len], ?_⟩
        · simp only [encAll, List.map_cons, List.flatMap_cons, List.append_assoc]
          simp only [encAll] at e₂
          rw [e₁, e₂]; rfl
        · intro x hx
          simp only [List.mem_cons] at hx
          rcases hx with rfl | hx
          · exact ⟨w₁, i₁⟩
          · exact w₂ x hx

/-- a block obtained from bytes (`Block.deserialize`, i.e. from the wire): the bytes consumed
are the canonical encoding of its content; its id is the hash of its header's encoding and the
id of each of its transactions is the hash of that transaction's encoding -/
theorem decBlock_id (C : Crypto) (bs : Bytes) (b : Block) (r : Bytes)
    (h : decBlock C.sha256d bs = some (b, r)) :
    bs = encBlock b ++ r ∧ b.content.WF ∧ b.id C = C.sha256d (encHeader b.header) ∧
    ∀ t ∈ b.txs, t.id C = C.sha256d (encTx t.tx) := by
  simp only [decBlock] at h
  split at h
  · simp at h
  · rename_i hdr r₀ hd₀
    split at h
    · simp at h
    · rename_i n r₁ hv
      split at h
      · simp at h
      · rename_i txs r₂ hd₂
        simp only [Option.some.injEq, Prod.mk.injEq] at h
        obtain ⟨h1, h2⟩ := h
        subst h1; subst h2
        obtain ⟨e₀, w₀⟩ := Header.canon _ _ _ hd₀
        have e₁ := encodeVlq_of_decodeVlq _ _ _ hv
        obtain ⟨e₂, len, w₂⟩ := decTxN_id C _ _ _ _ hd₂
        refine ⟨?_, ⟨w₀, ?_⟩, ?_, fun t ht => (w₂ t ht).2⟩
        · simp only [encBlock, Block.content, BlockC.codec, iso_enc, seq_enc, list_enc,
            List.length_map, List.append_assoc]
          rw [e₀, e₁, e₂, len]
        · intro t ht
          simp only [Block.content, List.mem_map] at ht
          obtain ⟨ct, hct, rfl⟩ := ht
          exact (w₂ ct hct).1
        · simp only [Block.id]
          rw [e₀]
          simp only [encHeader, consumed_append]

/-- built in memory (nothing cached): the id is computed from the encoding -/
theorem fresh_block_id (C : Crypto) (h : Header) (txs : List CTx) :
    (Block.fresh h txs).id C = C.sha256d (encHeader h) := rfl

theorem fresh_tx_id (C : Crypto) (t : Tx) : (CTx.fresh t).id C = C.sha256d (encTx t) := rfl

/-- hence two decodings of byte strings with the same content get the same id: the same
content is never known under two ids -/
theorem same_content_same_id (C : Crypto) (bs bs' : Bytes) (b b' : Block) (r r' : Bytes)
    (h : decBlock C.sha256d bs = some (b, r)) (h' : decBlock C.sha256d bs' = some (b', r'))
    (hc : b.header = b'.header) : b.id C = b'.id C := by
  rw [(decBlock_id C _ _ _ h).2.2.1, (decBlock_id C _ _ _ h').2.2.1, hc]

/-! ## non-vacuity: the hypotheses are met by concrete values -/

example : OutRef.WF ⟨zeros 32, 7⟩ := by simp [OutRef.WF, zeros]
example : Sig.WF (.coinbase 5 [1, 2, 3]) := by simp [Sig.WF]
example : decodeVlq [0x80, 0x40] = some (64, []) ∧ decodeVlq [0x40] = none := by
  constructor
  · have := decodeVlq_encodeVlq 64 []
    rw [lenient_not_canonical.2.2] at this; simpa using this
  · cases h : decodeVlq [0x40] with
    | none => rfl
    | some x =>
      obtain ⟨v, r⟩ := x
      have hv : decodeVlqLenient [0x40] = some (v, r) := by
        simp only [decodeVlq] at h
        simp only [decodeVlqLenient]
        split at h
        · simp at h
        · split at h
          · exact h
          · simp at h
      rw [lenient_not_canonical.1] at hv
      simp only [Option.some.injEq, Prod.mk.injEq] at hv
      obtain ⟨rfl, rfl⟩ := hv
      have := encodeVlq_of_decodeVlq _ _ _ h
      rw [lenient_not_canonical.2.2] at this
      simp at this

/-- the defect of the pinned tree (D1), as a theorem about the decoder before the `fix:`:
two different byte strings decode to 64 and neither is what the encoder writes for 64. -/
theorem pinned_tree_decoder_not_canonical :
    decodeVlqLenient [0x40] = some (64, []) ∧ decodeVlqLenient [0x80, 0x80, 0x40] = some (64, [])
      ∧ encodeVlq 64 = [0x80, 0x40] := lenient_not_canonical

end C07
end Model

import Model.PeerBook
import Model.Wallet
import Props.GenTie.Params
import Proofs.Map
import Proofs.Book
import Proofs.Book2
import Proofs.FS

/-!
# C19 — the peer book stays consistent and reconnects with bounded back-off

`Book.run P b evs`: the peer book after a sequence of network-manager events (manager steps at
given clock values, incoming connections, greetings, peer announcements, connections closing).
-/

namespace Model
namespace C19

variable (P : Params)

/-- no peer address is recorded both as connected and as waiting for reconnection — the
condition whose violation makes `_sanity_check` raise and stops the node's network loop -/
def Disjoint (b : Book) : Prop := ∀ k, b.connected.contains k = true → b.disconnected.contains k = false

theorem disconnect_preserves (b : Book) (k : PeerKey) (s : Nat) (h : Disjoint b) : Disjoint (b.disconnect k s) := by
  exact Book.Disj.disconnect h k s

/-- also at the point inside `handle_peer_connected` where `_sanity_check` runs -/
theorem peerConnected_preserves (b : Book) (k : PeerKey) (p : ConnPeer) (h : Disjoint b) :
    Disjoint (b.peerConnected k p) := by
  exact Book.Disj.peerConnected h k p

theorem apply_preserves (b : Book) (ev : BookEvent) (h : Disjoint b) : Disjoint (Book.apply P b ev) := by
  exact Book.Disj.apply P h ev

/-- across any sequence of connects, disconnects, greetings and announcements, starting from a
book with nobody connected (whatever the peers file held) -/
theorem book_disjoint (b₀ : Book) (h₀ : b₀.connected = []) (evs : List BookEvent) :
    Disjoint (Book.run P b₀ evs) := by
  exact Book.Disj.run P evs (Book.Disj.of_connected_nil h₀)

theorem never_insane (b₀ : Book) (h₀ : b₀.connected = []) (evs : List BookEvent) :
    (Book.run P b₀ evs).insane = false := by
  exact Book.Disj.not_insane (Book.Disj.run P evs (Book.Disj.of_connected_nil h₀))

/-! ## back-off -/

/-- the time of the most recent logged attempt to `k`, if any -/
def lastAttemptTo (log : List (PeerKey × Int × Nat)) (k : PeerKey) : Option Int :=
  (log.find? (·.1 = k)).map (·.2.1)

/-- a book as loaded at start-up: nobody connected, no attempt made yet -/
def Fresh (b : Book) : Prop :=
  b.connected = [] ∧ b.attempts = [] ∧ ∀ k d, b.disconnected.get? k = some d → d.lastAttempt = none

/-- every attempt respects the back-off with respect to the previous attempt to the same
address: for the log split as `newer ++ (k, t₂, ban) :: older`, with `t₁` the most recent earlier
attempt to `k`: `t₂ − t₁ ≥ min (10 s · 2^ban) 30 min` (with the constants of `P`), and no attempt
is made beyond the configured number of failures -/
theorem backoff (b₀ : Book) (h₀ : Fresh b₀) (evs : List BookEvent)
    (newer older : List (PeerKey × Int × Nat)) (k : PeerKey) (t₂ : Int) (ban : Nat)
    (hlog : (Book.run P b₀ evs).attempts = newer ++ (k, t₂, ban) :: older) :
    ban ≤ P.maxConnectionAttempts ∧ k.outgoing = true ∧
    ∀ t₁, lastAttemptTo older k = some t₁ →
      t₂ - t₁ ≥ (min (P.timeToSecondAttempt * 2 ^ ban) P.maxTimeBetweenAttempts : Nat) := by
  have hinv : Book.LastInv P (Book.run P b₀ evs) :=
    Book.LastInv.run evs (Book.LastInv.of_fresh h₀.1 h₀.2.1 h₀.2.2)
  exact hinv.spaced.split newer older k t₂ ban hlog

/-- the ban score counts consecutive outgoing connections that ended without a greeting: a
disconnect without greeting adds one, a greeting resets it -/
theorem ban_score_counts (b : Book) (k : PeerKey) (p : ConnPeer) (hk : k.outgoing = true)
    (hg : b.connected.get? k = some p) (hr : p.registered = true) :
    (b.disconnect k p.serial).disconnected.get? k =
      some ⟨p.lastAttempt, if p.helloReceived then p.banScore else p.banScore + 1⟩ := by
  simp only [Book.disconnect, hg, hr, decide_true, Bool.and_self, ↓reduceIte]
  rw [Book.disconnected_peerDisconnected, if_pos hk, Map.get?_set_self]

theorem greeting_resets_ban (b : Book) (k : PeerKey) (p : ConnPeer) (myPort : Nat)
    (hg : b.connected.get? k = some p) :
    ∀ p', (Book.apply P b (.hello k false myPort)).connected.get? k = some p' → p'.banScore = 0 := by
  intro p' hp'
  simp only [Book.apply, hg] at hp'
  split at hp'
  · rw [Book.connected_announce] at hp'
    have hp'' : (b.connected.set k { p with helloReceived := true, banScore := 0 }).get? k = some p' := hp'
    rw [Map.get?_set_self] at hp''
    simp only [Option.some.injEq] at hp''
    subst hp''; rfl
  · have hp'' : (b.connected.set k { p with helloReceived := true, banScore := 0 }).get? k = some p' := by
      simpa using hp'
    rw [Map.get?_set_self] at hp''
    simp only [Option.some.injEq] at hp''
    subst hp''; rfl

/-- a connection to the node itself is detected, dropped and not retried -/
theorem self_connection_dropped (b : Book) (k : PeerKey) (p : ConnPeer) (myPort : Nat)
    (hk : k.outgoing = true) (hg : b.connected.get? k = some p) (hr : p.registered = true) :
    let b' := Book.apply P b (.hello k true myPort)
    b'.connected.contains k = false ∧ (k.host, k.port) ∈ b'.myAddresses := by
  intro b'
  have hb' : b' = Book.disconnect
      { b with connected := b.connected.set k { p with helloReceived := true, banScore := 0 },
               myAddresses := (k.host, k.port) :: b.myAddresses } k p.serial := by
    show Book.apply P b (.hello k true myPort) = _
    simp only [Book.apply, hg, hk]
    rfl
  have hd : b' = Book.peerDisconnected
      { b with connected := b.connected.set k { p with helloReceived := true, banScore := 0 },
               myAddresses := (k.host, k.port) :: b.myAddresses } k
        { p with helloReceived := true, banScore := 0 } := by
    rw [hb']
    simp only [Book.disconnect, Map.get?_set_self, hr, decide_true, Bool.and_self, ↓reduceIte]
  refine ⟨?_, ?_⟩
  · rw [hd, Book.connected_peerDisconnected, Map.contains_erase]
    simp
  · rw [hd, Book.myAddresses_peerDisconnected]
    exact List.mem_cons_self

/-- once `(host, port)` of `k` is one of the node's own addresses, no new attempt to `k` is ever
logged, whatever happens afterwards: the entries of the attempt log (a history variable, newest
first) that concern `k` are, after any sequence of events, exactly those that were there before
(in particular the attempt through which the address was learnt stays the last one), and the
address stays recorded as the node's own. Nothing is assumed about the log of `b`: it may, and for
every reachable book with an own address does, contain earlier attempts to `k`. -/
theorem self_address_not_retried (b : Book) (k : PeerKey) (hmine : (k.host, k.port) ∈ b.myAddresses)
    (evs : List BookEvent) :
    (Book.run P b evs).attempts.filter (fun e => decide (e.1 = k)) = b.attempts.filter (fun e => decide (e.1 = k)) ∧
    (k.host, k.port) ∈ (Book.run P b evs).myAddresses := by
  have h : Book.SelfInv' k (b.attempts.filter (fun e => decide (e.1 = k))) (Book.run P b evs) :=
    Book.SelfInv'.run P evs ⟨hmine, rfl⟩
  exact ⟨h.2, h.1⟩

/-- the greeting itself logs nothing -/
theorem self_greeting_logs_nothing (b : Book) (k : PeerKey) (p : ConnPeer) (myPort : Nat)
    (hk : k.outgoing = true) (hg : b.connected.get? k = some p) :
    (Book.apply P b (.hello k true myPort)).attempts = b.attempts := by
  simp only [Book.apply, hg, hk]
  exact Book.attempts_disconnect _ _ _

/-- `self_connection_dropped` composed with `self_address_not_retried`: after the greeting carrying
the node's own nonce on a registered outgoing connection `k`, for every later sequence of events
the logged attempts to `k` are exactly those logged before the greeting — in particular their
number stays what it was: the node never dials `k` again -/
theorem self_connection_never_retried (b : Book) (k : PeerKey) (p : ConnPeer) (myPort : Nat)
    (hk : k.outgoing = true) (hg : b.connected.get? k = some p) (hr : p.registered = true)
    (evs : List BookEvent) :
    let b' := Book.apply P b (.hello k true myPort)
    (Book.run P b' evs).attempts.filter (fun e => decide (e.1 = k)) = b.attempts.filter (fun e => decide (e.1 = k)) ∧
    ((Book.run P b' evs).attempts.filter (fun e => decide (e.1 = k))).length =
      (b.attempts.filter (fun e => decide (e.1 = k))).length := by
  intro b'
  have hmine : (k.host, k.port) ∈ b'.myAddresses := (self_connection_dropped P b k p myPort hk hg hr).2
  have h := (self_address_not_retried P b' k hmine evs).1
  have ha : b'.attempts = b.attempts := self_greeting_logs_nothing P b k p myPort hk hg
  rw [ha] at h
  exact ⟨h, by rw [h]⟩

/-- an announced peer never overwrites a known one -/
theorem announced_never_overwrite (b : Book) (host : String) (port : Nat)
    (hknown : b.disconnected.contains ⟨host, port, true⟩ = true ∨ b.connected.contains ⟨host, port, true⟩ = true) :
    b.announce host port = b := by
  simp only [Book.announce]
  rcases hknown with h | h
  · rw [if_pos h]
  · rw [if_pos h]; split <;> rfl

/-! ## the peers file -/

/-- at most 100 entries (with the regenerated constant), most recent first, no duplicate key -/
theorem peers_file_shape (old : List (PeerKey × String)) (k : PeerKey) (stamp : String)
    (hnd : (old.map (·.1)).Nodup) :
    (writePeersContent P old k stamp).length ≤ P.peersFileMax ∧
    ((writePeersContent P old k stamp).map (·.1)).Nodup ∧
    (0 < P.peersFileMax → (writePeersContent P old k stamp).head? = some (k, stamp)) := by
  exact ⟨writePeers_length P old k stamp, writePeers_nodup P old k stamp hnd,
    writePeers_head P old k stamp⟩

theorem peers_file_production_limit : Gen.params.peersFileMax = 100 := by decide

/-- the file is replaced atomically with respect to process crashes: after every prefix of the
operations of a save — for every chunking of the content into writes — the file holds either the
complete previous or the complete new content, and the new one at the end -/
theorem save_atomic (fs : FS) (final : String) (chunks : List Bytes) (n : Nat) :
    let fs' := ((saveOps final chunks).take n).foldl FS.apply fs
    (fs'.read final = fs.read final ∨ fs'.read final = some chunks.flatten) ∧
    (n ≥ (saveOps final chunks).length → fs'.read final = some chunks.flatten) := by
  exact saveOps_atomic fs final chunks n

/-! ## non-vacuity: a concrete book and a concrete run -/

/-- fixed constants for the examples (the networking ones as in production: 10 s, 30 min) -/
def exParams : Params :=
  { maxSashimi := 1, maxBlockSize := 1, maxFutureBlockTime := 1, maxCoinbaseData := 1,
    retargetInterval := 1, retargetTimespan := 1, halvingInterval := 1, initialSubsidy := 1,
    sampleCount := 1, sampleSize := 1, maxKnownHeight := -1, knownHashes := [],
    inventorySize := 1, ibdValidationSkip := 1, maxMessageSize := 1,
    timeToSecondAttempt := 10, maxTimeBetweenAttempts := 1800, maxConnectionAttempts := 32,
    getPeersInterval := 1, peersFileMax := 100 }

def exKey : PeerKey := ⟨"10.0.0.1", 2412, true⟩

/-- a book as loaded from a peers file with one address -/
def exBook : Book := ⟨[], [(exKey, ⟨none, 0⟩)], [], [], 0⟩

example : Fresh exBook := by
  refine ⟨rfl, rfl, ?_⟩
  intro k d h
  simp only [exBook, Map.get?_cons, Map.get?_nil] at h
  split at h
  · simp only [Option.some.injEq] at h; subst h; rfl
  · exact absurd h (by simp)

/-- first attempt at 100; the connection closes without a greeting (ban score 1, back-off 20 s):
no attempt at 105 nor at 111 -/
example : (Book.run exParams exBook [.step 100, .close exKey, .step 105, .step 111]).attempts
    = [(exKey, 100, 0)] := by decide

/-- … nor at 119; the second attempt happens at 120 and not again at 121 (it is connected) -/
example : (Book.run exParams exBook
      [.step 100, .close exKey, .step 105, .step 111, .step 119, .step 120, .step 121]).attempts
    = [(exKey, 120, 1), (exKey, 100, 0)] := by decide

/-- in between the peer is recorded as waiting with ban score 1 and is not connected -/
example : (Book.run exParams exBook [.step 100, .close exKey]).disconnected.get? exKey = some ⟨some 100, 1⟩ ∧
    (Book.run exParams exBook [.step 100, .close exKey]).connected.contains exKey = false := by decide

/-- a greeting resets the ban score: after it a close leaves ban score 0 and the retry comes after 10 s -/
example : (Book.run exParams exBook
      [.step 100, .hello exKey false 2412, .close exKey, .step 109, .step 110]).attempts
    = [(exKey, 110, 0), (exKey, 100, 0)] := by decide

/-- a connection to oneself is not retried -/
example : (Book.run exParams exBook
      [.step 100, .hello exKey true 2412, .step 5000, .step 10000]).attempts = [(exKey, 100, 0)] := by decide

/-- `self_address_not_retried` applied to a reachable book: the one after the dial at 100 and the
greeting with the own nonce; its log does contain the attempt to `exKey` (so the hypothesis is
satisfied by a book whose log is not free of `exKey`), and the conclusion says the later steps
add none -/
example : ((Book.run exParams (Book.run exParams exBook [.step 100, .hello exKey true 2412])
      [.step 5000, .close exKey, .step 10000]).attempts.filter (fun e => decide (e.1 = exKey)))
    = [(exKey, 100, 0)] :=
  (self_address_not_retried exParams (Book.run exParams exBook [.step 100, .hello exKey true 2412]) exKey
    (by decide) [.step 5000, .close exKey, .step 10000]).1.trans (by decide)

/-- `self_connection_never_retried` applied: the book after the dial at 100 satisfies the hypotheses
of `self_connection_dropped`, and one attempt to `exKey` is logged then and ever after -/
example : ((Book.run exParams (Book.apply exParams (Book.run exParams exBook [.step 100]) (.hello exKey true 2412))
      [.step 5000, .step 10000]).attempts.filter (fun e => decide (e.1 = exKey))).length = 1 :=
  (self_connection_never_retried exParams (Book.run exParams exBook [.step 100]) exKey
    ⟨some 100, 0, false, true, 0⟩ 2412 rfl (by decide) rfl [.step 5000, .step 10000]).2.trans (by decide)

/-- the hypotheses of `backoff` are satisfiable with a non-trivial split of the log -/
example : (120 : Int) - 100 ≥ (min (exParams.timeToSecondAttempt * 2 ^ 1) exParams.maxTimeBetweenAttempts : Nat) :=
  (backoff exParams exBook (by
      refine ⟨rfl, rfl, ?_⟩
      intro k d h
      simp only [exBook, Map.get?_cons, Map.get?_nil] at h
      split at h
      · simp only [Option.some.injEq] at h; subst h; rfl
      · exact absurd h (by simp))
    [.step 100, .close exKey, .step 105, .step 111, .step 119, .step 120, .step 121]
    [] [(exKey, 100, 0)] exKey 120 1 (by decide)).2.2 100 (by decide)

/-- the peers file: the refreshed peer moves to the front, its older entry is dropped -/
example : writePeersContent exParams [(⟨"a", 1, true⟩, "t1"), (exKey, "t0")] exKey "t2"
    = [(exKey, "t2"), (⟨"a", 1, true⟩, "t1")] := by decide

/-- a save interrupted after the first two operations leaves the old content in place -/
example : (((saveOps "peers.json" [[1], [2]]).take 2).foldl FS.apply [("peers.json", [9])]).read "peers.json"
    = some [9] := by decide

example : ((saveOps "peers.json" [[1], [2]]).foldl FS.apply [("peers.json", [9])]).read "peers.json"
    = some [1, 2] := by decide

end C19
end Model

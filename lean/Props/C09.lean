import Model.Node
import Proofs.Validation
import Props.C13
import Proofs.NodeLemmas

/-!
# C09 — relay path: only fully valid blocks enter state; rejected ones leave no trace

`handleBlockReceived C P n c 0 b now` is `handle_block_received` for a block delivered outside
bulk download (`in_response_to = 0`) on connection `c`; the result is the node when the handler
returns or raises, and the exception that escaped (the caller then disconnects `c`).
-/

namespace Model
namespace C09

variable (C : Crypto) (P : Params)

/-- the state of a node that only ever received unsolicited blocks: the served state is the
last validated one, nothing is waiting in the write buffer, the pool invariant (C13) holds -/
structure Inv (n : Node) : Prop where
  lastValid : n.mgr.lastValid = some n.mgr.coinstate
  wbufEmpty : n.wbuf = []
  pool : C13.PoolInv C P n.mgr

/-- everything except connection `c`'s inventory bookkeeping is as before -/
def Untouched (n n' : Node) : Prop :=
  n'.mgr.coinstate = n.mgr.coinstate ∧ n'.mgr.pool = n.mgr.pool ∧ n'.mgr.lastValid = n.mgr.lastValid ∧
  n'.wbuf = n.wbuf ∧ n'.disk = n.disk ∧ n'.nonce = n.nonce ∧
  n'.peers.map (·.outbox.length) = n.peers.map (·.outbox.length) ∧
  n'.peers.map (·.active) = n.peers.map (·.active)

/-- cleaning the pool against the state it is already valid for changes nothing -/
theorem cleanup_same_state (m : ChainMgr) (h : C13.PoolInv C P m) :
    cleanupPool C m.coinstate m.pool = m.pool := by
  exact cleanupPool_eq_self C m.coinstate m.pool (fun t ht => (h.1 t ht).2)

/-- a block becomes part of the served chain state only if it passes full validation against
its parent's state (i.e. `CoinState.add_block` accepts it on the prior state) -/
theorem enter_only_if_valid (n : Node) (c : Nat) (b : Block) (now : Int) (hinv : Inv C P n)
    (hch : (handleBlockReceived C P n c 0 b now).1.mgr.coinstate ≠ n.mgr.coinstate) :
    addBlock C P n.mgr.coinstate b now = .ok (handleBlockReceived C P n c 0 b now).1.mgr.coinstate := by
  rcases hbr_cases C P n c b now hinv.lastValid hinv.wbufEmpty
          (cleanup_same_state C P n.mgr hinv.pool) with hu | ⟨_, changed, hd, ha⟩
  · exact absurd hu.1 hch
  · rw [ha.mgr]
    exact ha.ok

/-- when it does, it is written to the block store (and the write buffer is empty again) -/
theorem accepted_is_stored (n : Node) (c : Nat) (b : Block) (now : Int) (hinv : Inv C P n)
    (hch : (handleBlockReceived C P n c 0 b now).1.mgr.coinstate ≠ n.mgr.coinstate) :
    (∃ x ∈ (handleBlockReceived C P n c 0 b now).1.disk, x.id C = b.id C) ∧
    (handleBlockReceived C P n c 0 b now).1.wbuf = [] ∧
    (handleBlockReceived C P n c 0 b now).2 = none := by
  rcases hbr_cases C P n c b now hinv.lastValid hinv.wbufEmpty
          (cleanup_same_state C P n.mgr hinv.pool) with hu | ⟨_, changed, hd, ha⟩
  · exact absurd hu.1 hch
  · refine ⟨?_, ha.wbuf, ha.err⟩
    rw [ha.disk]
    exact flush_single_stored C n.disk b

/-- the store only grows -/
theorem disk_monotone (n : Node) (c : Nat) (r : Nat) (b : Block) (now : Int) (x : Block)
    (hx : x ∈ n.disk) : x ∈ (handleBlockReceived C P n c r b now).1.disk := by
  exact hbr_disk_mono C P n c r b now x hx

/-- if it is the new head it is relayed to every active peer exactly once: one `Data(block)`
appended to the queue of each peer that has exchanged greetings, nothing to the others -/
theorem relayed_once_if_new_head (n : Node) (c : Nat) (b : Block) (now : Int) (hinv : Inv C P n)
    (hch : (handleBlockReceived C P n c 0 b now).1.mgr.coinstate ≠ n.mgr.coinstate)
    (hhead : (handleBlockReceived C P n c 0 b now).1.mgr.coinstate.current = some (b.id C)) :
    (handleBlockReceived C P n c 0 b now).1.peers.map (·.outbox.length) =
      n.peers.map (fun p => if p.active then p.outbox.length + 1 else p.outbox.length) := by
  rcases hbr_cases C P n c b now hinv.lastValid hinv.wbufEmpty
          (cleanup_same_state C P n.mgr hinv.pool) with hu | ⟨_, changed, hd, ha⟩
  · exact absurd hu.1 hch
  · rw [ha.mgr] at hhead
    have hb : changed.head = some b := add_ok_head_of_current C ha.step hhead
    have hd_eq : hd = b := by
      have := ha.head
      rw [hb] at this
      exact (Option.some.inj this).symm
    rw [ha.outbox, hd_eq, blockEq_self, if_pos rfl]

/-- a repeated delivery of a block that is already part of the served state has no effect -/
theorem redelivery_noop (n : Node) (c : Nat) (r : Nat) (b : Block) (now : Int)
    (hk : n.mgr.coinstate.blocks.contains (b.id C) = true) :
    Untouched n (handleBlockReceived C P n c r b now).1 ∧ (handleBlockReceived C P n c r b now).2 = none := by
  exact hbr_known C P n c r b now hk

/-- a delivered block that is rejected for any reason — unknown parent, structural defect, rule
violation, or an error while applying it — leaves served state, last validated state, pool,
write buffer, store and every peer's queue exactly as they were -/
theorem reject_no_trace (n : Node) (c : Nat) (b : Block) (now : Int) (hinv : Inv C P n)
    (hrej : ∀ cs', addBlock C P n.mgr.coinstate b now ≠ .ok cs') :
    Untouched n (handleBlockReceived C P n c 0 b now).1 := by
  rcases hbr_cases C P n c b now hinv.lastValid hinv.wbufEmpty
          (cleanup_same_state C P n.mgr hinv.pool) with hu | ⟨_, changed, hd, ha⟩
  · exact hu
  · exact absurd ha.ok (hrej changed)

/-- the invariant is kept by every unsolicited delivery, accepted or not -/
theorem inv_preserved (n : Node) (c : Nat) (b : Block) (now : Int) (hinv : Inv C P n) :
    Inv C P (handleBlockReceived C P n c 0 b now).1 := by
  rcases hbr_cases C P n c b now hinv.lastValid hinv.wbufEmpty
          (cleanup_same_state C P n.mgr hinv.pool) with hu | ⟨_, changed, hd, ha⟩
  · obtain ⟨h1, h2, h3, h4, _⟩ := hu
    refine ⟨by rw [h3, h1]; exact hinv.lastValid, by rw [h4]; exact hinv.wbufEmpty, ?_⟩
    have hp := hinv.pool
    unfold C13.PoolInv at hp ⊢
    rw [h1, h2]
    exact hp
  · refine ⟨by rw [ha.mgr]; rfl, ha.wbuf, ?_⟩
    rw [ha.mgr]
    exact C13.setState_preserves C P n.mgr changed true
      ⟨fun t ht => (hinv.pool.1 t ht).1, hinv.pool.2⟩

/-- a sequence of unsolicited deliveries -/
def deliverAll (n : Node) : List (Nat × Block × Int) → Node
  | [] => n
  | (c, b, now) :: rest => deliverAll (handleBlockReceived C P n c 0 b now).1 rest

/-- rejected deliveries do not impair the storing of later blocks: after any sequence of
deliveries — valid blocks on any fork, duplicates, orphans, broken blocks in any mix — every block
that entered the served state during the sequence is in the store -/
theorem later_blocks_stored (n : Node) (ds : List (Nat × Block × Int)) (hinv : Inv C P n)
    (id : Bytes) (hnew : (deliverAll C P n ds).mgr.coinstate.blocks.contains id = true)
    (hold : n.mgr.coinstate.blocks.contains id = false) :
    ∃ x ∈ (deliverAll C P n ds).disk, x.id C = id := by
  have mono : ∀ (x : Block) (ds : List (Nat × Block × Int)) (n : Node),
      x ∈ n.disk → x ∈ (deliverAll C P n ds).disk := by
    intro x ds
    induction ds with
    | nil => intro n h; exact h
    | cons d rest ih =>
      intro n h
      obtain ⟨c, b, now⟩ := d
      exact ih _ (disk_monotone C P n c 0 b now x h)
  induction ds generalizing n with
  | nil =>
    simp only [deliverAll] at hnew
    rw [hold] at hnew
    cases hnew
  | cons d rest ih =>
    obtain ⟨c, b, now⟩ := d
    simp only [deliverAll] at hnew ⊢
    have hinv' := inv_preserved C P n c b now hinv
    cases hmid : (handleBlockReceived C P n c 0 b now).1.mgr.coinstate.blocks.contains id with
    | false => exact ih _ hinv' hnew hmid
    | true =>
      rcases hbr_cases C P n c b now hinv.lastValid hinv.wbufEmpty
          (cleanup_same_state C P n.mgr hinv.pool) with hu | ⟨_, changed, hd, ha⟩
      · rw [hu.1, hold] at hmid
        cases hmid
      · have hc : (handleBlockReceived C P n c 0 b now).1.mgr.coinstate = changed := by
          rw [ha.mgr]; rfl
        rw [hc, add_ok_contains C ha.step, hold] at hmid
        simp only [Bool.or_false, decide_eq_true_eq] at hmid
        obtain ⟨⟨x, hx, hxid⟩, _, _⟩ := accepted_is_stored C P n c b now hinv
          (by
            rw [hc]
            intro he
            have h1 := add_ok_contains C ha.step id
            rw [he, hold] at h1
            simp [hmid] at h1)
        exact ⟨x, mono x rest _ hx, hxid.trans hmid⟩

/-- non-vacuity: the invariant holds of a fresh node -/
example : Inv C P ⟨⟨CoinState.empty, [], some CoinState.empty⟩, [], [], [], 0⟩ :=
  ⟨rfl, rfl, ⟨fun _ ht => (by cases ht), (by simp [allRefs])⟩⟩

end C09
end Model

import Props.NonVacuity1
import Props.NonVacuity2
import Props.C05Code
import Props.C07
import Props.C10Walk
import Props.C10Sync
import Props.C11
import Props.C16
import Props.C16Code
import Props.C17
import Props.C19
import Props.GenTie.MinerRule
import Props.GenTie.HandleBlockRule
import Props.GenTie.PoolRule
import Props.GenTie.TxHandlerRule
import Props.GenTie.HelloRule
import Props.GenTie.PeerBookRule
import Props.GenTie.FetchRule
import Props.GenTie.DispatchRule
import Props.GenTie.GetBlocksRule
import Props.GenTie.BlockRule
import Props.GenTie.BlockByItselfRule
import Props.GenTie.CoinbaseRule
import Props.GenTie.SummaryRule
import Props.GenTie.TargetRule
import Props.GenTie.SpendPlanRule
import Props.GenTie.SpendRule
import Props.GenTie.FeeRule
import Props.GenTie.Head
import Props.GenTie.Vlq
import Props.GenTie.FlushRule

/-!
# NonVacuity4 — C05Code, C07, C10Walk, C10Sync, C11, C16, C16Code, C17, C19 and the conditional tie theorems of Props/GenTie

Every `example` / `nonvacuous_*` theorem *applies* the audited theorem to concrete values, so that all its hypotheses hold
together for that instance. The instances are those of `NonVacuity1` (32-byte toy hashes `nvC`, chain `G ← A`, miner block `B`)
and `NonVacuity2` (toy primitives `exC`, chain `G ← B1` with a spend, accepted by full validation).

Findings:
* PROBLEM (fixed by restating) — `C19.self_address_not_retried` used to assume that the log holds no attempt to `k` at all; for
  every key the node can dial that excludes `hmine` on every book reachable from a start-up book
  (`self_hyps_unreachable_for_dialled_key`, end of the C19 section, kept as the record of why), and for an incoming key the
  conclusion was trivially true. The theorem now says that the logged attempts to `k` never change once the address is the
  node's own, with no hypothesis on the log; it is applied below to the book `self_connection_dropped` produces, and
  `self_connection_never_retried` composes the two.
* WEAK (fixed by restating) — `GenTie.model_fee_as_translated` used to take any atom list `ins` with the right sum; it now takes
  the list of the values the model looks up for the inputs, in order. The former statement is kept as
  `model_fee_as_translated_of_sum` (applied below with `[1, 2, 3, 4]` for a transaction with one input of value 10).
* WEAK — `GenTie.model_reply_length_as_translated`: the reply is compared through its length only; `loop_is_scan` identifies the
  scan results `none` and `some none`.
* WEAK (fixed) — `GenTie.model_dispatch_is_translated` was documented "exactly when" but proved in one direction (translated
  raises → model refuses); it is now an equivalence (no handler of the model raises the dispatcher's exception).
* WEAK (pinned atoms, branch of the translated tree not covered by the tie) — `model_add_to_pool_is_translated_effects`
  (`has_head` is the literal `true`; `hhead` is not used by the proof), `model_block_by_itself_as_translated` and
  `model_block_in_state_as_translated` (`htx` pins "the block has transactions"; `hev` must hold even below the horizon),
  `model_miner_is_translated_effects` (`hev`), `model_summary_in_state_as_translated` (`ht`),
  `model_chain_step_is_translated_effects` (`hhead`), `model_tx_handler_is_translated_effects` (`hpool`).
* WEAK (minor) — `BalancesRule` / `AddBlockNvRule` compare through `okOf`, which drops the whole error value (kind and text),
  the doc-comments say "up to the text of the error".
* `GenTie.model_handler_is_translated_effects`: `hhead` is provable from `happly`'s premise (`add_ok_head_some`), i.e. redundant.
-/

namespace NonVacuity4
open Model

/-! ## helpers -/

theorem some_getD {α : Type} (x : Option α) (d : α) (h : x.isSome = true) : x = some (x.getD d) := by
  cases x with
  | none => cases h
  | some a => rfl

def getOk {α : Type} (x : Except Err α) (d : α) : α := match x with | .ok a => a | .error _ => d

theorem eq_ok_getOk {α : Type} {x : Except Err α} (d : α)
    (h : (match x with | .ok _ => true | .error _ => false) = true) : x = .ok (getOk x d) := by
  cases x with
  | ok a => rfl
  | error e => cases h

theorem ok_unit {x : Except Err Unit}
    (h : (match x with | .ok _ => true | .error _ => false) = true) : x = .ok () := by
  cases x with
  | ok u => rfl
  | error e => cases h

theorem ok_unique {α : Type} {x : Except Err α} {a : α} (h : x = .ok a) : ∀ b, x = .ok b → b = a := by
  intro b hb
  rw [h] at hb
  cases hb
  rfl

/-! ## C05Code — the only hypothesis is `0 < height` -/

example : Gen.select_block_height [0, 0, 0, 0, 0, 0, 0, 9, 1] 7 < 7 :=
  C05.code_select_block_height_in_range [0, 0, 0, 0, 0, 0, 0, 9, 1] 7 (by decide)

example : Gen.select_block_height [0, 0, 0, 0, 0, 0, 0, 9, 1] 7 = 2 := by decide

/-! ## C07 — the block the miner of `NonVacuity1` assembled (reward + two spends, 675 bytes), read back from the wire -/

open NonVacuity1 in
/-- the decoded object: the same content, ids cached from the raw bytes -/
def Bwire : Block := ((decBlock nvC.sha256d (encBlock B ++ [9, 9])).getD (B, [])).1

open NonVacuity1 in
theorem Bwire_dec : decBlock nvC.sha256d (encBlock B ++ [9, 9]) = some (Bwire, [9, 9]) := by
  have h : decBlock nvC.sha256d (encBlock B ++ [9, 9]) =
      some ((decBlock nvC.sha256d (encBlock B ++ [9, 9])).getD (B, [])) := some_getD _ _ (by decide +kernel)
  have h2 : ((decBlock nvC.sha256d (encBlock B ++ [9, 9])).getD (B, [])).2 = [9, 9] := by decide +kernel
  rw [h]
  exact congrArg some (Prod.ext rfl h2)

open NonVacuity1 in
/-- `decBlock_id`: hypothesis met by a three-transaction block followed by two more bytes -/
theorem nonvacuous_C07_decBlock_id :
    encBlock B ++ [9, 9] = encBlock Bwire ++ [9, 9] ∧ Bwire.content.WF ∧
    Bwire.id nvC = nvC.sha256d (encHeader Bwire.header) ∧
    ∀ t ∈ Bwire.txs, t.id nvC = nvC.sha256d (encTx t.tx) :=
  C07.decBlock_id nvC _ Bwire [9, 9] Bwire_dec

open NonVacuity1 in
/-- the instance is not degenerate: three transactions, and the decoded object is not the in-memory one (ids cached) -/
example : Bwire.txs.length = 3 ∧ Bwire ≠ B ∧ Bwire.content = B.content := by decide +kernel

open NonVacuity1 in
theorem B_dec_exact : decBlock nvC.sha256d (encBlock B) = some (Bwire, []) := by
  have h : decBlock nvC.sha256d (encBlock B) =
      some ((decBlock nvC.sha256d (encBlock B)).getD (B, [])) := some_getD _ _ (by decide +kernel)
  rw [h]
  exact congrArg some (by decide +kernel)

open NonVacuity1 in
/-- `same_content_same_id`: two different byte strings (one with trailing bytes) holding the same header -/
example : Bwire.id nvC = Bwire.id nvC ∧ encBlock B ≠ encBlock B ++ [9, 9] :=
  ⟨C07.same_content_same_id nvC (encBlock B) (encBlock B ++ [9, 9]) Bwire Bwire [] [9, 9] B_dec_exact Bwire_dec rfl,
   by intro h; have := congrArg List.length h; simp at this⟩

open NonVacuity1 in
/-- `decTx_id` / `transaction_single_encoding` / `vlq_canonical`: the spend `t1` -/
example := C07.decTx_id nvC (encTx t1.tx ++ [1]) ⟨t1.tx, some (nvC.sha256d (encTx t1.tx))⟩ [1] (by decide +kernel)

open NonVacuity1 in
example := C07.transaction_single_encoding (encTx t1.tx) (encTx t1.tx) t1.tx [] (by decide +kernel) (by decide +kernel)

example := C07.vlq_canonical [0x80, 0x40, 7] 64 [7] (by decide +kernel)

/-- `frame_roundtrip` / `message_roundtrip`: a data request for a block -/
example := C07.frame_roundtrip ⟨5, 1, 0, 0⟩ (.getData [0, 0] (zeros 32)) (by simp [MsgHeader.WF])
  (by simp [Msg.WF, zeros])

example := C07.message_roundtrip (.inventory [⟨[0, 0], zeros 32⟩]) [3]
  (by intro i hi; rw [List.mem_singleton.1 hi]; simp [InvItem.WF, zeros])

/-! ## C10Walk / C10Sync — requester `[G]`, server `[G, B1]` of `NonVacuity2` (`B1` holds a spend and passed full validation) -/

section Walk
open NonVacuity2 C10Converge

def idxF : Map Nat Block := (sF.current.bind sF.byHeightAt.get?).getD []

theorem sF_idx : sF.current.bind sF.byHeightAt.get? = some idxF := some_getD _ _ (by decide +kernel)
theorem sF_head : sF.head = some B1 := by decide +kernel
theorem foldG' : foldBlocks exC .empty [G] = .ok sG := by
  show (addBlockNoValidation exC .empty G >>= fun s => foldBlocks exC s []) = _
  rw [hG]; rfl

/-- `walk_lists_active_chain_on_built_states`: locator `[id G]`, the scan yields 1, the walk lists `B1` -/
theorem nonvacuous_C10Walk_on_built_states :
    ∃ ids, C10Walk.walk exC exP sF 1 [[1]] = .ok ids ∧ ids.length = B1.height + 1 - 1 ∧
      ∀ k (hk : k < ids.length), ∃ blk, idxF.get? (1 + k) = some blk ∧ ids[k] = blk.id exC :=
  C10Walk.walk_lists_active_chain_on_built_states exC exP [G, B1] sF wf_GB1 fold_GB1 idxF B1 1 1 [[1]] sF_idx sF_head
    (by decide) (by decide +kernel) (by decide)

example : C10Walk.walk exC exP sF 1 [[1]] = .ok [[2]] := by decide +kernel

/-- the four universally quantified "added hypotheses" (`hfull` includes height 0, i.e. the genesis block; `hstored`, `hlink`
range over the whole index) hold of the concrete state; `walk_lists_active_chain_unknown_locator` / `_after_block` /
`_from_start` then apply with them -/
theorem sF_active_chain :
    (∀ h, h ≤ B1.height → ∃ blk, idxF.get? h = some blk) ∧
    (∀ h, B1.height < h → idxF.get? h = none) ∧
    (∀ h blk, idxF.get? h = some blk → sF.blocks.get? (blk.id exC) = some blk ∧ blk.height = h) ∧
    (∀ h blk nxt, idxF.get? h = some blk → idxF.get? (h + 1) = some nxt → nxt.prev = blk.id exC) :=
  C10Walk.built_state_active_chain exC [G, B1] sF wf_GB1 fold_GB1 idxF B1 sF_idx sF_head

example :=
  C10Walk.walk_lists_active_chain_unknown_locator exC exP sF idxF B1 1 [[99]] sF_idx sF_head (by decide)
    sF_active_chain.1 sF_active_chain.2.1 sF_active_chain.2.2.1 sF_active_chain.2.2.2
    (by intro x hx; rw [List.mem_singleton.1 hx]; decide +kernel) (by decide)

example :=
  C10Walk.walk_lists_active_chain_after_block exC exP sF idxF B1 1 0 G sF_idx sF_head (by decide)
    sF_active_chain.1 sF_active_chain.2.1 sF_active_chain.2.2.1 sF_active_chain.2.2.2 (by decide +kernel) (by decide)

example :=
  C10Walk.walk_lists_active_chain_from_start exC exP sF idxF B1 1 1 [[1]] sF_idx sF_head (by decide)
    sF_active_chain.1 sF_active_chain.2.1 sF_active_chain.2.2.1 sF_active_chain.2.2.2 (by decide +kernel) (by decide)

theorem compat_G_GB1 : ∀ a ∈ [G], ∀ b ∈ [G, B1], a.id exC = b.id exC → a = b := by
  intro a ha b hb h
  simp only [List.mem_cons, List.not_mem_nil, or_false] at ha hb
  subst ha
  rcases hb with rfl | rfl
  · rfl
  · exact absurd h (by decide)

theorem sG_head : sG.head = some G := by decide +kernel
theorem sG_locator : locator exC sG = .ok [[1]] := by decide +kernel

/-- `every_missing_block_offered`: all of the (eleven) hypotheses at once; the requester is offered `B1` -/
theorem nonvacuous_C10Walk_every_missing_block_offered :
    ∃ ids, C10Walk.walk exC exP sF 1 [[1]] = .ok ids ∧
      ∀ h blk, h ≤ B1.height → idxF.get? h = some blk →
        blk.id exC ∈ ids ∨ (sG.blocks.get? (blk.id exC)).isSome = true :=
  C10Walk.every_missing_block_offered exC exP [G] [G, B1] sG sF wf_G foldG' wf_GB1 fold_GB1 rfl
    (fun a ha b hb h => by rw [compat_G_GB1 a ha b hb h]; exact ⟨rfl, rfl⟩)
    idxF B1 G sF_idx sF_head sG_head (by decide) (by decide) 1 (by decide) [[1]] sG_locator

/-- … and the conclusion is not trivially true: the requester does not store `B1`, so it must be (and is) listed -/
example : idxF.get? 1 = some B1 ∧ sG.blocks.get? (B1.id exC) = none := by decide +kernel

example := C10Walk.every_missing_block_offered_unless_not_behind exC exP [G] [G, B1] sG sF wf_G foldG' wf_GB1 fold_GB1 rfl
    (fun a ha b hb h => by rw [compat_G_GB1 a ha b hb h]; exact ⟨rfl, rfl⟩)
    idxF B1 G sF_idx sF_head sG_head (by decide) 1 (by decide) [[1]] sG_locator

example := C10Walk.locator_ok_on_built_states exC [G, B1] sF wf_GB1 fold_GB1
example := C10Walk.built_state_has_head exC [G, B1] sF wf_GB1 fold_GB1

/-- `C10Sync.catch_up` applied (the file's own example only states the hypotheses existentially) -/
theorem nonvacuous_C10Sync_catch_up :
    ∃ req', foldBlocks exC sG (C10Sync.missing exC sG idxF B1) = .ok req' ∧
      (∀ h blk, h ≤ B1.height → idxF.get? h = some blk → (req'.blocks.get? (blk.id exC)).isSome = true) ∧
      ∃ hd', req'.head = some hd' ∧ B1.height ≤ hd'.height :=
  C10Sync.catch_up exC [G] [G, B1] sG sF wf_G foldG' wf_GB1 fold_GB1 rfl compat_G_GB1 idxF B1 sF_idx sF_head

example : C10Sync.missing exC sG idxF B1 = [B1] := by decide +kernel

/-- `C10Sync.solicited_delivery_is_add`: `B1` arrives as an answer (`in_response_to = 1`) at the node `nG`
(`IBD_VALIDATION_SKIP` 5, height 1): all six hypotheses -/
example :=
  C10Sync.solicited_delivery_is_add exC exP nG 0 1 B1 5 (okOr (addBlockNoValidation exC sG B1)) (by decide)
    (by decide +kernel) (by decide +kernel) (ok_unit (by decide +kernel)) (by decide)
    (eq_ok_okOr (by decide +kernel))

end Walk

/-! ## C11 -/

section Framing
open C11

def magic : Bytes := [77, 65, 74, 73]

theorem good_payloads : ∀ p ∈ [[9, 8], [7]], GoodPayload 100 (fun _ => false) p := by
  intro p hp
  simp only [List.mem_cons, List.not_mem_nil, or_false] at hp
  rcases hp with rfl | rfl <;> simp [GoodPayload]

/-- `bad_magic_refused_at_that_point`: two good frames, then four bytes that are not the magic, cut into three reads -/
theorem nonvacuous_C11_bad_magic :
    (feedAll magic 100 (fun _ => false) RState.init
        [[77, 65, 74, 73, 0, 0], [0, 2, 9, 8, 77, 65, 74, 73, 0, 0, 0, 1], [7, 1, 2, 3, 4, 5]]).payloads = [[9, 8], [7]] ∧
    (feedAll magic 100 (fun _ => false) RState.init
        [[77, 65, 74, 73, 0, 0], [0, 2, 9, 8, 77, 65, 74, 73, 0, 0, 0, 1], [7, 1, 2, 3, 4, 5]]).err = some .magic :=
  bad_magic_refused_at_that_point magic 100 (fun _ => false) [[9, 8], [7]] [1, 2, 3, 4, 5] _ rfl good_payloads
    (by decide) (by decide) (by decide)

/-- `over_limit_length_refused_at_that_point`: a good frame, then a header announcing 101 > 100 bytes -/
example :=
  over_limit_length_refused_at_that_point magic 100 (fun _ => false) [[9, 8]] 101 [5, 5]
    [[77, 65, 74, 73, 0, 0, 0, 2, 9], [8, 77, 65, 74, 73, 0, 0, 0, 101, 5, 5]] rfl
    (fun p hp => good_payloads p (by simp only [List.mem_singleton] at hp; subst hp; simp))
    (by decide) (by decide) (by decide)

/-- `feed_append` / `feed_inv`: a state in the middle of a frame (magic and length read, one payload byte buffered) -/
def stMid : RState := ⟨[9], true, some 2⟩
theorem stMid_inv : stMid.Inv := by intro _; rfl

example := feed_append magic 100 (fun _ => false) stMid [8, 77] [65, 74, 73] stMid_inv
example := feed_inv magic 100 (fun _ => false) stMid [8, 77] stMid_inv

/-- `chunking_irrelevant_from`: `Quiet` holds of that mid-frame state (not only of the initial one) -/
theorem stMid_quiet : Quiet magic 100 (fun _ => false) stMid := by
  unfold Quiet
  rw [recv_short magic 100 (fun _ => false) (st := stMid) (s₂ := stMid) (n := 2) (by decide) rfl (by decide)]
  exact RResult.Same.refl _

example := chunking_irrelevant_from magic 100 (fun _ => false) [[8, 77], [65, 74], [73, 0, 0, 0, 0]] stMid stMid_inv
  stMid_quiet

/-- `recv_quiet`: hypothesis `err = none` for that state -/
example := recv_quiet magic 100 (fun _ => false) stMid stMid_inv
  (by rw [recv_short magic 100 (fun _ => false) (st := stMid) (s₂ := stMid) (n := 2) (by decide) rfl (by decide)])

example := fragmentation_independent magic 100 (fun _ => false) [[1, 2], [3]] [[1], [2, 3]] rfl

end Framing

/-! ## C16 / C16Code — the hypotheses are ranges of heights -/

example : C16.supply 40000000 = 2099999986350000 := C16.total_supply 40000000 (by decide)
example : C16.codeSupply 31500000 = Gen.MAX_SASHIMI := C16.code_total_supply 31500000 (by decide)
example : 0 < subsidy C16.P 31499999 := C16.subsidy_pos 31499999 (by decide)
example : Gen.get_block_subsidy 31500000 = 0 := C16.code_subsidy_zero 31500000 (by decide)
example := C16.subsidy_first_era 1049999 (by decide)
example := C16.code_subsidy_antitone 1049999 1050000 (by decide)

/-! ## C17 -/

section Merkle
open C17

theorem sumHash_len : ∀ x, (sumHash x).length = 32 := by intro x; simp [sumHash]

/-- `duplicate_last_changes_root`: the hypothesis "the roots agree" is satisfiable — for the non-injective `sumHash` the root of
`[x]` and of `[x, x]` coincide for `x = 0…0` — and the conclusion then holds by its *second* disjunct being exhibited (the
entry `x` is the inner hash of the other tree), so neither hypothesis nor conclusion is idle -/
theorem nonvacuous_C17_duplicate_last :
    Collision sumHash ∨ ∃ t t', merkleTree ([] ++ [zeros 32]) = some t ∧ merkleTree ([] ++ [zeros 32, zeros 32]) = some t' ∧
      LeafIsInner sumHash t t' :=
  duplicate_last_changes_root sumHash sumHash_len [] (zeros 32)
    (by intro v hv; simp only [List.nil_append, List.mem_singleton] at hv; subst hv; simp [zeros]) (by decide +kernel)

/-- `root_injective`: lists of different lengths with equal roots -/
example := root_injective sumHash sumHash_len [zeros 32] [zeros 32, zeros 32] (by decide) (by decide)
  (by intro v hv; rw [List.mem_singleton.1 hv]; simp [zeros])
  (by intro v hv; simp only [List.mem_cons, List.not_mem_nil, or_false, or_self] at hv; subst hv; simp [zeros])
  (by decide +kernel)

example : [zeros 32] ≠ [zeros 32, zeros 32] := by decide

/-- `proof_sound` / `proof_contains_entry` / `root_defined` / `tree_hash_eq_root` -/
example := proof_sound sumHash [[1], [2], [3]] (by decide) 2 (by decide)
example := root_defined sumHash [[1], [2], [3]] (by decide)

end Merkle

/-! ## C19 -/

section PeerBook
open C19

/-- the book after the first dial of `exKey` at time 100: the peer is connected, registered, not greeted -/
def b1 : Book := Book.run exParams exBook [.step 100]
def p1 : ConnPeer := ⟨some 100, 0, false, true, 0⟩
theorem b1_conn : b1.connected.get? exKey = some p1 := by decide

/-- `ban_score_counts` -/
theorem nonvacuous_C19_ban_score_counts :
    (b1.disconnect exKey p1.serial).disconnected.get? exKey = some ⟨some 100, 1⟩ :=
  ban_score_counts b1 exKey p1 rfl b1_conn rfl

/-- `greeting_resets_ban`, on a peer with a non-zero ban score (second dial after one failure) -/
def b2 : Book := Book.run exParams exBook [.step 100, .close exKey, .step 120]
example : b2.connected.get? exKey = some ⟨some 120, 1, false, true, 1⟩ := by decide
example := greeting_resets_ban exParams b2 exKey ⟨some 120, 1, false, true, 1⟩ 2412 (by decide)

/-- `self_connection_dropped` -/
example :=
  self_connection_dropped exParams b1 exKey p1 2412 rfl b1_conn rfl

/-- `book_disjoint` / `never_insane` on a run with a reconnect -/
example := book_disjoint exParams exBook rfl [.step 100, .close exKey, .step 120, .hello exKey false 2412]
example := never_insane exParams exBook rfl [.step 100, .incoming "10.0.0.9" 5000, .hello ⟨"10.0.0.9", 5000, false⟩ false 2412]

/-- `announced_never_overwrite` (connected) / `peers_file_shape` -/
example := announced_never_overwrite b1 "10.0.0.1" 2412 (.inr (by decide))
example := peers_file_shape exParams [(⟨"a", 1, true⟩, "t1"), (exKey, "t0")] exKey "t2" (by decide)

/-- `self_address_not_retried` (restated: no hypothesis on the log) applied to a REACHABLE book — the one
`self_connection_dropped` produces from `b1`: dialled at 100, greeted with the node's own nonce. Its log holds the attempt to
`exKey`, the address is the node's own, and the later manager steps (far beyond every back-off) log no further attempt -/
def bDropped : Book := Book.apply exParams b1 (.hello exKey true 2412)
theorem bDropped_mine : (exKey.host, exKey.port) ∈ bDropped.myAddresses :=
  (self_connection_dropped exParams b1 exKey p1 2412 rfl b1_conn rfl).2
theorem nonvacuous_C19_self_address_not_retried :
    (Book.run exParams bDropped [.step 5000, .close exKey, .step 100000]).attempts.filter (fun e => decide (e.1 = exKey))
      = [(exKey, 100, 0)] :=
  (self_address_not_retried exParams bDropped exKey bDropped_mine [.step 5000, .close exKey, .step 100000]).1.trans (by decide)

/-- `self_connection_never_retried`: the composition, with the hypotheses of `self_connection_dropped` at `b1` -/
example : ((Book.run exParams (Book.apply exParams b1 (.hello exKey true 2412)) [.step 5000, .step 100000]).attempts.filter
      (fun e => decide (e.1 = exKey))).length = 1 :=
  (self_connection_never_retried exParams b1 exKey p1 2412 rfl b1_conn rfl [.step 5000, .step 100000]).2.trans (by decide)

/-- … whereas without the own address the peer that does not answer is dialled again (the statement is not trivially true of
every book) -/
example : ((Book.run exParams b1 [.close exKey, .step 5000]).attempts.filter (fun e => decide (e.1 = exKey))).length = 2 := by
  decide

/-! ### PROBLEM with the former statement (hypotheses unreachable for the case the doc-comment is about) — why it was replaced

`self_address_not_retried` is documented as "a connection to the node itself is detected, dropped and **not retried**". Its
former hypotheses were `(k.host, k.port) ∈ b.myAddresses` and `∀ e ∈ b.attempts, e.1 ≠ k` (no attempt to `k` logged so far). An address
enters `myAddresses` only in `Book.apply (.hello k true _)` for an *outgoing* connected `k`, an outgoing key is connected only by
`startOutgoing`, and `stepPeers` logs the attempt `(k, now, _)` right before it. Hence in every book reachable from a start-up
book (nothing connected, no own address known) an own address of a dialled key comes with a logged attempt to that key: the two
hypotheses are contradictory for every outgoing `k`, and for an incoming `k` (`k.outgoing = false`) the conclusion is trivial
because only outgoing keys are ever logged. In particular the former theorem could not be applied to the book that
`self_connection_dropped` produces. The statement that holds and is meant — no *new* attempt to `k` — is the present one
(`Book.SelfInv'` in `Proofs/Book2.lean`: the logged attempts to `k` compared to the log at the time of detection). -/

/-- every connected outgoing key and every own address has a logged attempt -/
def Tried (b : Book) : Prop :=
  (∀ k p, b.connected.get? k = some p → k.outgoing = true → ∃ e ∈ b.attempts, e.1 = k) ∧
  (∀ h p, (h, p) ∈ b.myAddresses → ∃ e ∈ b.attempts, e.1 = ⟨h, p, true⟩)

theorem Tried.congr {b b' : Book} (h : Tried b) (hc : b'.connected = b.connected) (hm : b'.myAddresses = b.myAddresses)
    (ha : b'.attempts = b.attempts) : Tried b' := by
  unfold Tried; rw [hc, hm, ha]; exact h

theorem Tried.peerDisconnected {b : Book} (h : Tried b) (k : PeerKey) (p : ConnPeer) : Tried (b.peerDisconnected k p) := by
  refine ⟨?_, ?_⟩
  · intro k' p' hg ho
    rw [Book.connected_peerDisconnected, Map.get?_erase] at hg
    rw [Book.attempts_peerDisconnected]
    split at hg
    · cases hg
    · exact h.1 k' p' hg ho
  · rw [Book.myAddresses_peerDisconnected, Book.attempts_peerDisconnected]; exact h.2

theorem Tried.disconnect {b : Book} (h : Tried b) (k : PeerKey) (s : Nat) : Tried (b.disconnect k s) := by
  simp only [Book.disconnect]
  split
  · split
    · exact h.peerDisconnected _ _
    · exact h
  · exact h

theorem Tried.dropDup {b : Book} (h : Tried b) (k : PeerKey) : Tried (b.dropDup k) := by
  simp only [Book.dropDup]
  split
  · exact h.disconnect _ _
  · exact h

/-- recording a connection under `k` keeps the invariant when `k` is incoming or has a logged attempt -/
theorem Tried.peerConnected {b : Book} (h : Tried b) (k : PeerKey) (p : ConnPeer)
    (hk : k.outgoing = true → ∃ e ∈ b.attempts, e.1 = k) : Tried (b.peerConnected k p) := by
  have hd := h.dropDup k
  rw [Book.peerConnected_eq]
  refine ⟨?_, ?_⟩
  · intro k' p' hg ho
    show ∃ e ∈ (b.dropDup k).attempts, e.1 = k'
    have hg' : ((b.dropDup k).connected.set k p).get? k' = some p' := hg
    rw [Map.get?_set] at hg'
    split at hg'
    · next e => subst e; rw [Book.attempts_dropDup]; exact hk ho
    · exact hd.1 k' p' hg' ho
  · exact hd.2

theorem Tried.announce {b : Book} (h : Tried b) (host : String) (port : Nat) : Tried (b.announce host port) :=
  h.congr (Book.connected_announce _ _ _) (Book.myAddresses_announce _ _ _) (Book.attempts_announce _ _ _)

theorem Tried.foldl_announce (l : List (String × Nat)) {b : Book} (h : Tried b) :
    Tried (l.foldl (fun b (x : String × Nat) => b.announce x.1 x.2) b) := by
  induction l generalizing b with
  | nil => exact h
  | cons x rest ih => rw [List.foldl_cons]; exact ih (h.announce _ _)

theorem Tried.stepPeers (P : Params) (now : Int) (l : List (PeerKey × DiscPeer)) {b : Book} (h : Tried b) :
    Tried (Book.stepPeers P now b l) := by
  induction l generalizing b with
  | nil => exact h
  | cons x rest ih =>
    obtain ⟨k', d0⟩ := x
    simp only [Book.stepPeers]
    split
    · exact ih h
    · next d hd =>
      split
      · apply ih
        simp only [Book.startOutgoing]
        apply Tried.peerConnected
        · refine ⟨?_, ?_⟩
          · intro k p hg ho
            obtain ⟨e, he, hek⟩ := h.1 k p hg ho
            exact ⟨e, List.mem_cons_of_mem _ he, hek⟩
          · intro hh pp hm
            obtain ⟨e, he, hek⟩ := h.2 hh pp hm
            exact ⟨e, List.mem_cons_of_mem _ he, hek⟩
        · intro _
          exact ⟨(k', now, d.banScore), List.mem_cons_self, rfl⟩
      · exact ih h

theorem Tried.apply (P : Params) {b : Book} (h : Tried b) (ev : BookEvent) : Tried (Book.apply P b ev) := by
  cases ev with
  | step now => exact h.stepPeers P now _
  | incoming host port =>
    simp only [Book.apply]
    apply Tried.peerConnected
    · exact h.congr rfl rfl rfl
    · intro ho; cases ho
  | hello k mine myPort =>
    simp only [Book.apply]
    split
    · exact h
    · next p hp =>
      -- marking the peer as greeted keeps the connected keys
      have h₁ : Tried { b with connected := b.connected.set k { p with helloReceived := true, banScore := 0 } } := by
        refine ⟨?_, h.2⟩
        intro k' p' hg ho
        have hg' : (b.connected.set k { p with helloReceived := true, banScore := 0 }).get? k' = some p' := hg
        rw [Map.get?_set] at hg'
        split at hg'
        · next e => subst e; exact h.1 k p hp ho
        · exact h.1 k' p' hg' ho
      split
      · exact h₁.announce _ _
      · next hout =>
        split
        · apply Tried.disconnect
          refine ⟨h₁.1, ?_⟩
          intro hh pp hm
          have hm' : (hh, pp) ∈ (k.host, k.port) :: b.myAddresses := hm
          rw [List.mem_cons] at hm'
          rcases hm' with e | hm'
          · have ho : k.outgoing = true := by simpa using hout
            obtain ⟨e', he', hek⟩ := h.1 k p hp ho
            refine ⟨e', he', ?_⟩
            rw [hek]
            cases e
            cases k
            simp only at ho
            subst ho
            rfl
          · exact h.2 hh pp hm'
        · exact h₁
  | peers l =>
    rw [Book.apply_peers_eq]
    exact h.foldl_announce l
  | close k =>
    simp only [Book.apply]
    split
    · exact h
    · exact h.disconnect _ _

theorem Tried.run (P : Params) (evs : List BookEvent) {b : Book} (h : Tried b) : Tried (Book.run P b evs) := by
  induction evs generalizing b with
  | nil => exact h
  | cons ev rest ih =>
    simp only [Book.run, List.foldl_cons]
    exact ih (h.apply P ev)

/-- **the finding**: from a start-up book (nobody connected, no own address recorded — whatever the peers file held), in every
reachable book an own address `(k.host, k.port)` of an outgoing key `k` comes with a logged attempt to `k`; so the hypotheses
`hmine` and `hno` of the former `C19.self_address_not_retried` excluded each other for every key the node can dial (`hno` has
been dropped from the statement) -/
theorem self_hyps_unreachable_for_dialled_key (P : Params) (b₀ : Book) (hc : b₀.connected = []) (hm : b₀.myAddresses = [])
    (evs : List BookEvent) (k : PeerKey) (hk : k.outgoing = true)
    (hmine : (k.host, k.port) ∈ (Book.run P b₀ evs).myAddresses) :
    ¬ ∀ e ∈ (Book.run P b₀ evs).attempts, e.1 ≠ k := by
  have h0 : Tried b₀ := by
    refine ⟨?_, ?_⟩
    · intro k' p hg; rw [hc] at hg; cases hg
    · intro h p hmem; rw [hm] at hmem; cases hmem
  obtain ⟨e, he, hek⟩ := (h0.run P evs).2 k.host k.port hmine
  intro hno
  apply hno e he
  rw [hek]
  cases k
  simp only at hk
  subst hk
  rfl

/-- … e.g. the book right after the self-connection was detected and dropped: own address known, attempt logged -/
example : ("10.0.0.1", 2412) ∈ (Book.run exParams exBook [.step 100, .hello exKey true 2412]).myAddresses ∧
    (Book.run exParams exBook [.step 100, .hello exKey true 2412]).attempts = [(exKey, 100, 0)] := by decide

/-- and for an incoming key the conclusion of the former `self_address_not_retried` held of every reachable log anyway:
only outgoing keys are logged (`backoff` gives `k.outgoing = true` for every entry) -/
example (evs : List BookEvent) (newer older : List (PeerKey × Int × Nat)) (k : PeerKey) (t : Int) (ban : Nat)
    (hlog : (Book.run exParams exBook evs).attempts = newer ++ (k, t, ban) :: older) : k.outgoing = true :=
  (backoff exParams exBook ⟨rfl, rfl, by
      intro k d h
      simp only [exBook, Map.get?_cons, Map.get?_nil] at h
      split at h
      · simp only [Option.some.injEq] at h; subst h; rfl
      · exact absurd h (by simp)⟩ evs newer older k t ban hlog).2.1

end PeerBook


/-! # the conditional tie theorems of Props/GenTie

All of them are stated at the production constants `Gen.params` (checkpoint horizon 163000, table entries every 500 heights).
The chain `G ← B1` of `NonVacuity2` is usable there: `B1` (height 1, not in the table) passes `add_block` under `Gen.params`
(below the horizon only the checkpoint comparison decides). For the branches *above* the horizon a hand-made state with a block
at height 163000 is used (`sH`, `BT`). -/

section Ties
open NonVacuity2 C10Converge GenTie

def uG : Utxo := [(⟨[7], 0⟩, ⟨10, [5]⟩)]
theorem sG_utxo : sG.utxoAt.get? B1.prev = some uG := by decide +kernel

/-! ## MinerRule — a candidate assembled by the model's miner from `sG` and the pool `[spend]`, at the production constants -/

def mG : ChainMgr := ⟨sG, [spend], some sG⟩
def candP : Summary × Nat × List CTx :=
  getOk (minerCandidate exC Gen.params mG [5] 6 0) (⟨0, [], [], 0, [], 0⟩, 0, [])
def evP : Evidence :=
  getOk (evidenceAfterScrypt exC Gen.params sG (summaryHash exC candP.1 candP.2.1) candP.1 candP.2.1 candP.2.2) ⟨[], [], []⟩
def BP : Block := Block.fresh ⟨candP.1, evP⟩ candP.2.2
def sP : CoinState := getOk (addBlock exC Gen.params sG BP 6) .empty

theorem candP_ok : minerCandidate exC Gen.params mG [5] 6 0 = .ok candP := eq_ok_getOk _ (by decide +kernel)
theorem evP_ok : evidenceAfterScrypt exC Gen.params sG (summaryHash exC candP.1 candP.2.1) candP.1 candP.2.1 candP.2.2
    = .ok evP := eq_ok_getOk _ (by decide +kernel)
theorem BP_added : addBlock exC Gen.params sG BP 6 = .ok sP := eq_ok_getOk _ (by decide +kernel)

/-- `model_miner_is_translated_effects`: `hev` and `hadd` met by a block that is a solution and is accepted (the branch with all
five effects); the node is `nG` (two peers, a pending transaction) -/
theorem nonvacuous_GenTie_miner :
    let eff := Gen.miner_found_effects (!(bytesLt (BP.id exC) BP.target)) (okB3 (addBlock exC Gen.params sG BP 6))
    (minerFound exC Gen.params nG sG candP.1 candP.2.1 candP.2.2 (summaryHash exC candP.1 candP.2.1) 6).1.1 =
      eff.1.foldl (runMinerEffect exC BP sP) nG ∧
    ((minerFound exC Gen.params nG sG candP.1 candP.2.1 candP.2.2 (summaryHash exC candP.1 candP.2.1) 6).1.2.isSome = eff.2) :=
  model_miner_is_translated_effects exC nG sG candP.1 candP.2.1 candP.2.2 (summaryHash exC candP.1 candP.2.1) 6 evP sP
    evP_ok (ok_unique BP_added)

example : Gen.miner_found_effects (!(bytesLt (BP.id exC) BP.target)) (okB3 (addBlock exC Gen.params sG BP 6)) =
    (["validate_and_add", "adopt_validated", "broadcast", "buffer", "flush"], false) ∧ BP.txs.length = 2 := by
  decide +kernel

/-- `model_candidate_timestamp_is_translated`: `hh` -/
example := model_candidate_timestamp_is_translated nG.mgr 6 ⟨.empty, [], none⟩ G nG_head

/-! ## HandleBlockRule — the unsolicited delivery of `B1` to `nG` -/

def sChanged : CoinState := okOr (addBlockNoValidation exC sG B1)
theorem B1_nv : addBlockNoValidation exC sG B1 = .ok sChanged := eq_ok_okOr (by decide +kernel)

example :=
  model_handler_is_translated_effects exC nG 0 0 B1 5 sChanged (ok_unique B1_nv)
    (by intro cs h; rw [ok_unique B1_nv cs h]; decide +kernel)

/-- the branch taken: apply, buffer, adopt as validated, flush, relay -/
example : Gen.handle_block_effects (sG.blocks.contains (B1.id exC)) (sG.blocks.contains B1.prev)
      (okB2 (validateBlockByItself exC Gen.params B1 5)) (okB2 (addBlockNoValidation exC sG B1)) (decide ((0 : Nat) = 0))
      B1.height (okB2 (validateBlockInState exC Gen.params sG B1)) nG.mgr.lastValid.isSome
      (match sChanged.head with | some hd => blockEq B1 hd | none => false) =
    (["remove_from_inventory", "apply", "buffer", "adopt_validated", "flush", "broadcast"], false) := by decide +kernel

/-! ## PoolRule / TxHandlerRule -/

/-- `model_add_to_pool_is_translated_effects`: `hhead` (the atom `has_head` is fixed to `true` by the statement) -/
example := model_add_to_pool_is_translated_effects exC ⟨sG, [], none⟩ spend (by decide +kernel)

/-- the branch the tie does not cover (`has_head = false`): both sides let the exception escape -/
example : Gen.add_to_pool_effects .ok .ok .ok false = ([], true) ∧
    (match addTxToPool exC Gen.params ⟨.empty, [], none⟩ spend with | .error (.key _) => true | _ => false) = true := by
  decide +kernel

def nEmpty : Node := ⟨⟨sG, [], some sG⟩, [], [], [peerA, peerI], 0⟩

theorem spend_admitted : addTxToPool exC Gen.params nEmpty.mgr spend = .ok (⟨sG, [spend], some sG⟩, true) :=
  NonVacuity1.addTx_intro exC Gen.params nEmpty.mgr spend (ok_unit (by decide +kernel)) (ok_unit (by decide +kernel))
    (by decide +kernel)

/-- `model_tx_handler_is_translated_effects`: not pending, admitted (relayed) -/
example := model_tx_handler_is_translated_effects exC nEmpty spend ⟨sG, [spend], some sG⟩ true (fun _ => spend_admitted)

/-- … and already pending (the hypothesis is then vacuous, `m'`, `admitted` arbitrary — the translated tree ignores them) -/
example := model_tx_handler_is_translated_effects exC nG spend nG.mgr false
  (fun h => absurd (show nG.mgr.pool.any (fun x => x.tx = spend.tx) = true by decide) h)

/-! ## HelloRule / PeerBookRule -/

/-- `model_hello_is_translated_effects`: an outgoing connection whose greeting carries the node's own nonce … -/
example := model_hello_is_translated_effects C19.exParams b1 C19.exKey p1 true 2412 b1_conn

/-- … and an incoming one (the reverse address is announced) -/
def bIn : Book := Book.run C19.exParams C19.exBook [.incoming "10.0.0.9" 5000]
example := model_hello_is_translated_effects C19.exParams bIn ⟨"10.0.0.9", 5000, false⟩ ⟨none, 0, false, true, 0⟩ false 2412
  (by decide)

/-- `model_step_peer_as_translated`: `hd` -/
example := model_step_peer_as_translated C19.exParams 100 C19.exBook C19.exKey ⟨none, 0⟩ ⟨none, 0⟩ [] (by decide)

/-! ## FetchRule — the step of `NonVacuity2`'s C10Fetch example (a request is sent) -/

example := model_chain_step_is_translated_effects exC nG exFs 2000 0 G nG_head

example : Gen.chain_step_effects (Gen.should_fetch 2000 G.header.summary.timestamp exFs.startedAt)
    (candidates fetchParams nG exFs 2000).isEmpty (pruneFetching nG exFs 2000).length (okB4 (locator exC sG)) =
    (["select_candidates", "prune", "locator", "choose", "set_waiting", "append_fetching", "send"], false) := by
  decide +kernel

/-! ## DispatchRule -/

/-- `model_dispatch_is_translated` (now an equivalence), left to right: `hp` and "the translated dispatcher raises" — the peer
that has not greeted asks for peers -/
example := (model_dispatch_is_translated exC exP nG 1 peerI 7 0 .getPeers 5 rfl).1 (by decide)

/-- right to left, used contrapositively on the greeted peer: the translated dispatcher does not raise, so the model's result
is not the refusal — here a data request of an unknown type, which raises something else -/
example : handleMessage exC exP nG 0 7 0 (.getData [9] [1]) 5 ≠ (nG, some (.other "First message must be Hello")) :=
  fun h => absurd ((model_dispatch_is_translated exC exP nG 0 peerA 7 0 (.getData [9] [1]) 5 rfl).2 h) (by decide)
example := model_dispatch_not_raised exC exP nG 0 peerA 7 0 (.getData [9] [1]) 5 rfl (by decide)
example := (model_raises_first_must_be_hello_iff exC exP nG 1 7 0 .getPeers 5).2 ⟨peerI, rfl, by decide, rfl⟩
example := model_dispatch_routes_data exC exP nG 0 peerA 7 0 5 rfl rfl

/-- `hp`, `hg` for the greeted peer: inventory, data request, header payload -/
example := model_inventory_is_translated_effects exC nG 0 peerA 7 0 [[2]] 5 rfl rfl
example := model_get_data_is_translated_effects exC exP nG 0 peerA 7 0 [0, 0] [1] 5 rfl rfl
example := model_data_header_raises exC exP nG 0 peerA 7 0 5 rfl rfl

/-- `check_inventory_as_model`: one earlier, used batch -/
example := check_inventory_as_model (fun i => i == [1]) bytesToNat [[1], [2]] [(true, [(false, false, 5)])]
  (by intro o ho; rw [List.mem_singleton.1 ho])

/-! ## GetBlocksRule — 32-byte ids are needed: the chain `G ← A` of `NonVacuity1` -/

section GetBlocks
open NonVacuity1

def idxGA : Map Nat Block := (sGA.current.bind sGA.byHeightAt.get?).getD []
theorem sGA_idx : sGA.current.bind sGA.byHeightAt.get? = some idxGA := some_getD _ _ (by decide +kernel)

theorem get?_mem {κ ν : Type} [DecidableEq κ] (m : Map κ ν) (k : κ) (v : ν) (h : m.get? k = some v) : (k, v) ∈ m := by
  induction m with
  | nil => cases h
  | cons e rest ih =>
    obtain ⟨k', v'⟩ := e
    rw [Map.get?_cons] at h
    split at h
    · next e => cases h; subst e; exact List.mem_cons_self
    · exact List.mem_cons_of_mem _ (ih h)

/-- the universally quantified hypothesis `hprev` (it includes the genesis block, whose parent reference is 32 zero bytes) -/
theorem idxGA_prev : ∀ hh b, idxGA.get? hh = some b → b.prev.length = 32 := by
  intro hh b h
  have hall : ∀ e ∈ idxGA, e.2.prev.length = 32 := by decide +kernel
  exact hall (hh, b) (get?_mem _ _ _ h)

theorem loc32 : ∀ x ∈ [pad32 101], x.length = 32 := by
  intro x hx; rw [List.mem_singleton.1 hx]; decide

theorem inv_sGA : inventoryReply nvC Gen.params sGA [pad32 101] = .ok [pad32 102] := by decide +kernel

/-- `loop_is_scan` -/
example := loop_is_scan sGA idxGA idxGA_prev [pad32 101] loc32

/-- `model_reply_length_as_translated`: the outer hypotheses, and then the inner one for the index the theorem returns -/
theorem nonvacuous_GenTie_reply_length :
    match Gen.get_blocks_range (indexHas idxGA) (prevAt idxGA) ([pad32 101].map (locatorAtoms sGA)) A.height with
    | none => [pad32 102] = []
    | some (a, b) => [pad32 102].length = b - a := by
  obtain ⟨index, hd, hidx, hhd, h⟩ := model_reply_length_as_translated nvC sGA [pad32 101] [pad32 102] inv_sGA loc32
  have e1 : index = idxGA := Option.some.inj (hidx.symm.trans sGA_idx)
  have e2 : hd = A := Option.some.inj (hhd.symm.trans (by decide +kernel))
  subst e1 e2
  exact h idxGA_prev

example : Gen.get_blocks_range (indexHas idxGA) (prevAt idxGA) ([pad32 101].map (locatorAtoms sGA)) A.height = some (1, 2) := by
  decide +kernel

end GetBlocks

/-! ## BlockRule / BlockByItselfRule / CoinbaseRule / SummaryRule / TargetRule -/

def evB1 : Evidence := getOk (constructEvidence exC Gen.params sG B1.header.summary B1.height B1.txs) ⟨[], [], []⟩
theorem evB1_ok : constructEvidence exC Gen.params sG B1.header.summary B1.height B1.txs = .ok evB1 :=
  eq_ok_getOk _ (by decide +kernel)

/-- `model_block_in_state_as_translated` below the horizon (only the checkpoint comparison decides) -/
example :=
  (model_block_in_state_as_translated exC sG B1 evB1 cb1 [spend] uG evB1_ok rfl sG_utxo).1 (ok_unit (by decide +kernel))

/-! ### above the horizon: a hand-made state holding one block `H` at height 163000 (indexed at 0 as well, the height the toy
hash makes the chain sample select), and a block `BT` of height 163001 on it with the reward 10⁹ + 4 and the spend -/

def cbH : CTx := ⟨⟨[⟨thinAir, .coinbase 163000 []⟩], [⟨10, [5]⟩]⟩, some [7]⟩
def H : Block := ⟨⟨⟨163000, zeros 32, [7], 0, [1], 0⟩, ⟨[], [], []⟩⟩, [cbH], some [1]⟩
def sH : CoinState := ⟨[([1], H)], [([1], uG)], [([1], [(0, H), (163000, H)])], [([1], H)], some [1]⟩
def cbT : CTx := ⟨⟨[⟨thinAir, .coinbase 163001 []⟩], [⟨1000000004, [5]⟩]⟩, some [12]⟩
def sumT : Summary := ⟨163001, [1], [], 5, [1], 0⟩
def evT : Evidence := getOk (constructEvidence exC Gen.params sH sumT 163001 [cbT, spend]) ⟨[], [], []⟩
def BT : Block := ⟨⟨sumT, evT⟩, [cbT, spend], some [2]⟩

theorem evT_ok : constructEvidence exC Gen.params sH BT.header.summary BT.height BT.txs = .ok evT :=
  eq_ok_getOk _ (by decide +kernel)

theorem BT_valid : validateBlockInState exC Gen.params sH BT = .ok () := ok_unit (by decide +kernel)

/-- `model_block_in_state_as_translated` above the horizon: summary rules, evidence, reward rule, the spend's rules -/
theorem nonvacuous_GenTie_block_in_state_above_horizon :
    ¬ BT.height ≤ Gen.MAX_KNOWN_HASH_HEIGHT ∧
    Gen.block_in_state_ok BT.height (Gen.params.knownHashes.lookup BT.height).isSome
      (match Gen.params.knownHashes.lookup BT.height with | some h => decide (BT.id exC ≠ h) | none => false)
      (okB (validateSummaryInState exC Gen.params sH BT.header.summary)) (decide (BT.header.evidence ≠ evT))
      (okB (validateCoinbaseInState Gen.params sH cbT BT)) ([spend].map fun t => okB (validateTxInState exC uG t)) = true :=
  ⟨by decide, (model_block_in_state_as_translated exC sH BT evT cbT [spend] uG evT_ok rfl (by decide +kernel)).1 BT_valid⟩

/-- … and one unit more of reward is refused by both sides -/
def cbT' : CTx := ⟨⟨[⟨thinAir, .coinbase 163001 []⟩], [⟨1000000005, [5]⟩]⟩, some [12]⟩
def BT' : Block := ⟨⟨sumT, getOk (constructEvidence exC Gen.params sH sumT 163001 [cbT', spend]) ⟨[], [], []⟩⟩, [cbT', spend], some [2]⟩
example : okB (validateBlockInState exC Gen.params sH BT') = false ∧
    okB (validateCoinbaseInState Gen.params sH cbT' BT') = false := by decide +kernel

/-- `model_block_by_itself_as_translated`: `htx`, `hroot` -/
example := model_block_by_itself_as_translated exC B1 5 cb1 [spend] [] rfl (by decide +kernel)

/-- `model_coinbase_in_state_as_translated`: `hpb`, `hu`, `hf` (fees 4) -/
example := model_coinbase_in_state_as_translated sG cb1 B1 G uG 4 (by decide +kernel) sG_utxo (by decide +kernel)
example := model_coinbase_in_state_as_translated sH cbT BT H uG 4 (by decide +kernel) (by decide +kernel) (by decide +kernel)

/-- `model_summary_in_state_as_translated` / `model_summary_unknown_parent` -/
example := model_summary_in_state_as_translated exC sG B1.header.summary G (by decide +kernel) [1] (by decide +kernel)
example := model_summary_unknown_parent exC sG ⟨1, [77], [], 5, [1], 0⟩ (by decide +kernel) 5 0 0 [1] (fun _ => [1])

/-- `model_calc_target_as_translated`: the ordinary branch, and the readjustment branch (height 10080, the interval's first block
is `G` at height 0 in the index of the parent `G`; two weeks elapsed: the target stays 1) -/
example := model_calc_target_as_translated exC sG 1 5 G [1] (by decide +kernel)

theorem nonvacuous_GenTie_calc_target_retarget :
    newTarget Gen.params G.target 1209600 = Gen.calc_target_rule 10080 1209600 G.target
      (fun hh => match (sG.byHeightAt.get? (G.id exC)).bind (·.get? hh.toNat) with | some sb => sb.timestamp | none => 0)
      (fun tg dt => newTarget Gen.params tg dt.toNat) :=
  model_calc_target_as_translated exC sG 10080 1209600 G _ (by decide +kernel)

example : 10080 % Gen.BLOCKS_BETWEEN_TARGET_READJUSTMENT = 0 ∧
    bytesToNat (newTarget Gen.params G.target 1209600) = 1 ∧ bytesToNat (newTarget Gen.params G.target 2419200) = 2 := by
  decide +kernel

/-! ## SpendPlanRule / SpendRule / FeeRule — the wallet of `NonVacuity2` (key `[5]`, the reward of `B1`) -/

def enc (r : OutRef) : Nat := bytesToNat r.hash * 10 + r.index

theorem w5_present : ∀ r ∈ w5.candidates bal5, (u1.get? r).isSome := by decide +kernel

/-- `model_plan_is_translated` / `model_plan_total`: `hpresent` with a non-empty candidate list -/
example := model_plan_is_translated w5 u1 bal5 9 1 [8] [5] enc w5_present
example := model_plan_total w5 u1 bal5 9 1 [8] [5] w5_present
example : w5.candidates bal5 = [⟨[12], 0⟩] := by decide +kernel

/-- `model_createSpend_is_translated`: `hpresent` and a successful `createSpend` -/
example :=
  model_createSpend_is_translated w5 _ u1 bal5 9 1 [8] [5] [[3]] t5 enc w5_present w5_spend

example : Gen.create_spend 9 1 (keyAtoms w5 u1 bal5 enc) = some ([120], [9, 4], [120]) := by decide +kernel

example := any_bad_signature_refused [(false, true, 5), (false, false, 7)] [3] (false, false, 7) (by simp) rfl
example := any_missing_output_refused [(false, true, 5), (true, false, 0)] [3] (true, false, 0) (by simp) rfl

/-- `model_fee_as_translated` (restated): `vals` is the list of the values looked up for the inputs — one input of value 10 -/
example := model_fee_as_translated uG spend [10] (by decide +kernel)
example : txFee uG spend = .ok (Gen.transaction_fee [10] (spend.tx.outputs.map (·.value))) :=
  model_fee_as_translated uG spend [10] (by decide +kernel)
example := (model_fee_defined_iff uG spend).2 ⟨[10], by decide +kernel⟩

/-- the former statement, kept as `model_fee_as_translated_of_sum` — its WEAK point: `ins` is any list with the right sum, not
the list of the inputs' values -/
example := model_fee_as_translated_of_sum uG spend 10 (by decide +kernel) [10] rfl
example := model_fee_as_translated_of_sum uG spend 10 (by decide +kernel) [1, 2, 3, 4] rfl

/-! ## Head / Vlq / FlushRule -/

/-- `model_head_is_translated_choice`: a fork block (`B1alt`, a second child of `G`, arrives at the state with head `B1`) -/
example := model_head_is_translated_choice exC sF _ B1alt (eq_ok_okOr (by decide +kernel))
example : sF.current = some [2] ∧ ([2] : Bytes) ≠ B1alt.prev := by decide +kernel

example := translated_canonical [0x80, 0x40, 7] 64 [7] (by decide +kernel)
example := stream_deserialize_vlq_error [0x40] "DeserializationError" (by decide +kernel)
example := stream_deserialize_vlq_error [0x80] "SerializationTruncationError" (by decide +kernel)

/-- `concurrent_handover_not_lost`: `hm`, `hl` for the schedule "hand-over first, then the flush" -/
example := concurrent_handover_not_lost true (3 : Nat) [1] [2]
  ((Gen.buffer_add_effects.1.map fun y => (1, y)) ++ ((Gen.flush_effects true).1.map fun y => (0, y))) (by decide) (by decide)

end Ties

end NonVacuity4

import Props.NonVacuity2
import Props.C02

/-!
Non-vacuity of `C02.supply_bound_from` / `ValidChainFrom` with a checkpoint horizon of 1 (where `ValidChain` admits a lone genesis
block only): the base is the checkpointed block `B1` (height 1 = horizon, stored with an unspent total within the schedule), the
step is a block `B2` of height 2 assembled by the model's miner on top of it and accepted by **full** validation under the
parameters with that horizon.
-/

namespace NonVacuity3
open Model C10Converge NonVacuity2

/-- the toy parameters with the two blocks `G`, `B1` checkpointed -/
def Ph : Params := { exP with maxKnownHeight := 1, knownHashes := [(0, [1]), (1, [2])] }

def getOk3 {α : Type} (x : Except Err α) (d : α) : α := match x with | .ok a => a | .error _ => d

theorem eq_ok_getOk3 {α : Type} (x : Except Err α) {d : α}
    (h : (match x with | .ok _ => true | .error _ => false) = true) : x = .ok (getOk3 x d) := by
  cases x with
  | ok a => rfl
  | error e => cases h

def m1 : ChainMgr := ⟨s1, [], some s1⟩
def cand2 : Summary × Nat × List CTx := getOk3 (minerCandidate exC Ph m1 [5] 6 0) (⟨0, [], [], 0, [], 0⟩, 0, [])
def ev2 : Evidence :=
  getOk3 (evidenceAfterScrypt exC Ph s1 (summaryHash exC cand2.1 cand2.2.1) cand2.1 cand2.2.1 cand2.2.2) ⟨[], [], []⟩
def B2 : Block := Block.fresh ⟨cand2.1, ev2⟩ cand2.2.2
def s2 : CoinState := okOr (addBlock exC Ph s1 B2 6)

theorem B2_accepted : addBlock exC Ph s1 B2 6 = .ok s2 := eq_ok_okOr (by decide +kernel)

theorem some_getD {α : Type} (x : Option α) (d : α) (h : x.isSome = true) : x = some (x.getD d) := by
  cases x with
  | none => cases h
  | some a => rfl

def u1 : Utxo := (s1.utxoAt.get? (B1.id exC)).getD []

theorem validFrom_B1 : C02.ValidChainFrom exC Ph s1 B1 :=
  .base s1 B1 u1 (by decide +kernel) (some_getD _ _ (by decide +kernel)) (by decide +kernel)

theorem validFrom_B2 : C02.ValidChainFrom exC Ph s2 B2 :=
  .step s1 s2 B1 B2 6 validFrom_B1 (by decide +kernel) B2_accepted (by decide +kernel) (by decide +kernel)

/-- the bound at the validated block above the horizon: 30 = schedule(3) -/
theorem nonvacuous_C02_supply_bound_from :
    ∃ u, s2.utxoAt.get? (B2.id exC) = some u ∧ totalValue u ≤ C02.schedule Ph (B2.height + 1) :=
  C02.supply_bound_from exC Ph s2 B2 validFrom_B2

example : B2.height = 2 ∧ C02.schedule Ph 3 = 30 ∧ (s2.utxoAt.get? (B2.id exC)).map totalValue = some 30 := by
  decide +kernel

/-- … while under these parameters the old quantifier admits nothing beyond a genesis block -/
example (cs : CoinState) (tip : Block) (hv : C02.ValidChain exC Ph cs tip) : tip.height = 0 :=
  (C02.validChain_only_genesis_of_positive_horizon exC Ph cs tip (by decide) hv).1

end NonVacuity3

import Model.Wallet
import Proofs.WalletLemmas
import Proofs.FS

/-!
# C15 — wallet keys: faithful file, no key handed out twice, atomic save
-/

namespace Model
namespace C15

/-- hex text round trip -/
theorem ofHex_toHex (bs : Bytes) : ofHexChars (toHex bs).toList = some bs := by
  exact ofHexChars_toHex bs

/-- saving and loading reproduces key pairs, unused keys and annotations exactly (the record of
outputs used by this wallet is, by design, not saved) -/
theorem load_dump (w : Wallet) : Wallet.load w.dump = some { w with spent := [] } := by
  exact Wallet.load_dump w

/-- the wallet invariant: unused keys are distinct, none of them is annotated (handed out), and
annotated and unused keys are wallet keys -/
structure Inv (w : Wallet) : Prop where
  unusedNodup : w.unused.Nodup
  annotNodup : (w.annotations.map (·.1)).Nodup
  disjoint : ∀ k ∈ w.unused, k ∉ w.annotations.map (·.1)
  unusedKeys : ∀ k ∈ w.unused, k ∈ w.keys
  annotKeys : ∀ k ∈ w.annotations.map (·.1), k ∈ w.keys
  allCovered : ∀ k ∈ w.keys, k ∈ w.unused ∨ k ∈ w.annotations.map (·.1)
  keysNodup : w.keys.Nodup

theorem empty_inv : Inv Wallet.empty := by
  constructor <;> simp [Wallet.empty, Wallet.keys]

theorem addKey_inv (w : Wallet) (pk sk : Bytes) (h : Inv w) (hfresh : pk ∉ w.keys) : Inv (w.addKey pk sk) := by
  obtain ⟨h1, h2, h3, h4, h5, h6, h7⟩ := h
  have hk : ∀ k, k ∈ (w.addKey pk sk).keys ↔ (k ∈ w.keys ∧ k ≠ pk) ∨ k = pk := by
    intro k
    simp only [Wallet.addKey, Wallet.keys, List.map_append, List.mem_append, mem_map_fst_filter_ne,
      List.map_cons, List.map_nil, List.mem_singleton]
  have hne : ∀ k, k ∈ w.keys → k ≠ pk := fun k hk' e => hfresh (e ▸ hk')
  have hun : pk ∉ w.unused := fun hm => hfresh (h4 pk hm)
  have han : pk ∉ w.annotations.map (·.1) := fun hm => hfresh (h5 pk hm)
  constructor
  · exact nodup_concat _ _ h1 hun
  · exact h2
  · intro k hk'
    simp only [Wallet.addKey, List.mem_append, List.mem_singleton] at hk'
    rcases hk' with hk' | rfl
    · exact h3 k hk'
    · exact han
  · intro k hk'
    simp only [Wallet.addKey, List.mem_append, List.mem_singleton] at hk'
    rw [hk]
    rcases hk' with hk' | rfl
    · exact Or.inl ⟨h4 k hk', hne k (h4 k hk')⟩
    · exact Or.inr rfl
  · intro k hk'
    rw [hk]
    exact Or.inl ⟨h5 k hk', hne k (h5 k hk')⟩
  · intro k hk'
    rw [hk] at hk'
    simp only [Wallet.addKey, List.mem_append, List.mem_singleton]
    rcases hk' with ⟨hk', _⟩ | rfl
    · rcases h6 k hk' with h | h
      · exact Or.inl (Or.inl h)
      · exact Or.inr h
    · exact Or.inl (Or.inr rfl)
  · simp only [Wallet.addKey, Wallet.keys, List.map_append, List.map_cons, List.map_nil]
    apply nodup_concat
    · exact nodup_map_fst_filter _ _ h7
    · rw [mem_map_fst_filter_ne]
      exact fun h => h.2 rfl

/-- a key handed out while unused keys remain was not handed out before (it carries no
annotation), is marked as handed out afterwards and is no longer among the unused keys -/
theorem handOut_fresh (w w' : Wallet) (a : String) (c : Nat) (pk : Bytes) (h : Inv w)
    (hne : w.unused ≠ []) (ho : w.handOut a c = some (w', pk)) :
    pk ∉ w.annotations.map (·.1) ∧ pk ∈ w'.annotations.map (·.1) ∧ pk ∉ w'.unused ∧ Inv w' := by
  obtain ⟨h1, h2, h3, h4, h5, h6, h7⟩ := h
  unfold Wallet.handOut at ho
  split at ho
  · rename_i hl
    exact absurd (List.getLast?_eq_none_iff.mp hl) hne
  · rename_i q hl
    simp only [Option.some.injEq, Prod.mk.injEq] at ho
    obtain ⟨hw, rfl⟩ := ho
    subst hw
    obtain ⟨ys, hys⟩ := List.getLast?_eq_some_iff.mp hl
    have hdl : w.unused.dropLast = ys := by rw [hys]; simp
    have hq : q ∈ w.unused := by rw [hys]; simp
    have hnd := h1
    rw [hys, nodup_concat_iff] at hnd
    have hsub : ∀ k, k ∈ ys → k ∈ w.unused := by intro k hk; rw [hys]; simp [hk]
    have hqa : q ∉ w.annotations.map (·.1) := h3 q hq
    have hmem : ∀ k, k ∈ (w.annotations.filter (·.1 ≠ q) ++ [(q, a)]).map (·.1) ↔
        (k ∈ w.annotations.map (·.1) ∧ k ≠ q) ∨ k = q := by
      intro k
      simp only [List.map_append, List.mem_append, mem_map_fst_filter_ne,
        List.map_cons, List.map_nil, List.mem_singleton]
    refine ⟨hqa, ?_, ?_, ?_⟩
    · exact (hmem q).mpr (Or.inr rfl)
    · show q ∉ w.unused.dropLast
      rw [hdl]; exact hnd.2
    · constructor
      · show (w.unused.dropLast).Nodup
        rw [hdl]; exact hnd.1
      · show ((w.annotations.filter (·.1 ≠ q) ++ [(q, a)]).map (·.1)).Nodup
        simp only [List.map_append, List.map_cons, List.map_nil]
        apply nodup_concat
        · exact nodup_map_fst_filter _ _ h2
        · rw [mem_map_fst_filter_ne]
          exact fun h => h.2 rfl
      · intro k hk'
        change k ∈ w.unused.dropLast at hk'
        rw [hdl] at hk'
        show k ∉ (w.annotations.filter (·.1 ≠ q) ++ [(q, a)]).map (·.1)
        rw [hmem]
        rintro (⟨hka, _⟩ | rfl)
        · exact h3 k (hsub k hk') hka
        · exact hnd.2 hk'
      · intro k hk'
        change k ∈ w.unused.dropLast at hk'
        rw [hdl] at hk'
        exact h4 k (hsub k hk')
      · intro k hk'
        change k ∈ (w.annotations.filter (·.1 ≠ q) ++ [(q, a)]).map (·.1) at hk'
        rw [hmem] at hk'
        rcases hk' with ⟨hka, _⟩ | rfl
        · exact h5 k hka
        · exact h4 k hq
      · intro k hk'
        change k ∈ w.keys at hk'
        show k ∈ w.unused.dropLast ∨ k ∈ (w.annotations.filter (·.1 ≠ q) ++ [(q, a)]).map (·.1)
        rw [hdl, hmem]
        by_cases hkq : k = q
        · exact Or.inr (Or.inr hkq)
        · rcases h6 k hk' with h | h
          · rw [hys] at h
            simp only [List.mem_append, List.mem_singleton] at h
            rcases h with h | h
            · exact Or.inl h
            · exact absurd h hkq
          · exact Or.inr (Or.inl ⟨h, hkq⟩)
      · exact h7

theorem restore_inv (w w' : Wallet) (pk : Bytes) (h : Inv w) (hr : w.restore pk = some w') :
    Inv w' ∧ pk ∈ w'.unused ∧ pk ∉ w'.annotations.map (·.1) := by
  obtain ⟨h1, h2, h3, h4, h5, h6, h7⟩ := h
  unfold Wallet.restore at hr
  split at hr
  · rename_i hany
    rw [any_fst_eq_iff] at hany
    simp only [Option.some.injEq] at hr
    subst hr
    have hpu : pk ∉ w.unused := fun hm => h3 pk hm hany
    have hmem : ∀ k, k ∈ (w.annotations.filter (·.1 ≠ pk)).map (·.1) ↔
        (k ∈ w.annotations.map (·.1) ∧ k ≠ pk) := fun k => mem_map_fst_filter_ne _ _ _
    refine ⟨?_, ?_, ?_⟩
    · constructor
      · exact nodup_concat _ _ h1 hpu
      · exact nodup_map_fst_filter _ _ h2
      · intro k hk'
        change k ∈ w.unused ++ [pk] at hk'
        show k ∉ (w.annotations.filter (·.1 ≠ pk)).map (·.1)
        rw [hmem]
        simp only [List.mem_append, List.mem_singleton] at hk'
        rintro ⟨hka, hne⟩
        rcases hk' with hk' | hk'
        · exact h3 k hk' hka
        · exact hne hk'
      · intro k hk'
        change k ∈ w.unused ++ [pk] at hk'
        simp only [List.mem_append, List.mem_singleton] at hk'
        rcases hk' with hk' | rfl
        · exact h4 k hk'
        · exact h5 k hany
      · intro k hk'
        change k ∈ (w.annotations.filter (·.1 ≠ pk)).map (·.1) at hk'
        rw [hmem] at hk'
        exact h5 k hk'.1
      · intro k hk'
        change k ∈ w.keys at hk'
        show k ∈ w.unused ++ [pk] ∨ k ∈ (w.annotations.filter (·.1 ≠ pk)).map (·.1)
        rw [hmem]
        simp only [List.mem_append, List.mem_singleton]
        by_cases hkq : k = pk
        · exact Or.inl (Or.inr hkq)
        · rcases h6 k hk' with h | h
          · exact Or.inl (Or.inl h)
          · exact Or.inr ⟨h, hkq⟩
      · exact h7
    · show pk ∈ w.unused ++ [pk]
      simp
    · show pk ∉ (w.annotations.filter (·.1 ≠ pk)).map (·.1)
      rw [hmem]
      exact fun h => h.2 rfl
  · simp at hr

theorem saveLoad_inv (w w' : Wallet) (h : Inv w) (hl : Wallet.load w.dump = some w') : Inv w' := by
  rw [Wallet.load_dump] at hl
  simp only [Option.some.injEq] at hl
  subst hl
  obtain ⟨h1, h2, h3, h4, h5, h6, h7⟩ := h
  exact ⟨h1, h2, h3, h4, h5, h6, h7⟩

/-- operations on a wallet's keys -/
inductive KeyOp where
  | handOut (annotation : String) (choice : Nat)
  | restore (pk : Bytes)
  | saveLoad
  | addKey (pk sk : Bytes)

/-- run a sequence of operations; returns the final wallet and, newest first, the log of keys
handed out while unused keys remained (`true`) and of keys restored (`false`) -/
def runOps : Wallet → List (Bool × Bytes) → List KeyOp → Wallet × List (Bool × Bytes)
  | w, log, [] => (w, log)
  | w, log, .handOut a c :: rest =>
    match w.handOut a c with
    | some (w', pk) => runOps w' (if w.unused ≠ [] then (true, pk) :: log else log) rest
    | none => runOps w log rest
  | w, log, .restore pk :: rest =>
    match w.restore pk with
    | some w' => runOps w' ((false, pk) :: log) rest
    | none => runOps w log rest
  | w, log, .saveLoad :: rest =>
    match Wallet.load w.dump with
    | some w' => runOps w' log rest
    | none => runOps w log rest
  | w, log, .addKey pk sk :: rest =>
    if pk ∈ w.keys then runOps w log rest else runOps (w.addKey pk sk) log rest

theorem handOut_annotations (w w' : Wallet) (a : String) (c : Nat) (pk : Bytes)
    (hne : w.unused ≠ []) (ho : w.handOut a c = some (w', pk)) :
    w'.annotations = w.annotations.filter (·.1 ≠ pk) ++ [(pk, a)] := by
  unfold Wallet.handOut at ho
  split at ho
  · rename_i hl
    exact absurd (List.getLast?_eq_none_iff.mp hl) hne
  · simp only [Option.some.injEq, Prod.mk.injEq] at ho
    obtain ⟨hw, rfl⟩ := ho
    subst hw
    rfl

theorem handOut_reuse (w w' : Wallet) (a : String) (c : Nat) (pk : Bytes)
    (he : w.unused = []) (ho : w.handOut a c = some (w', pk)) : w' = w := by
  unfold Wallet.handOut at ho
  rw [he] at ho
  simp only [List.getLast?_nil] at ho
  split at ho
  · simp only [Option.some.injEq, Prod.mk.injEq] at ho
    exact ho.1.symm
  · simp at ho

/-- the invariant of `runOps`: the wallet invariant, a well-formed log, and every key whose most
recent log entry is a hand-out still carries its annotation -/
theorem runOps_logGood (ops : List KeyOp) : ∀ (w : Wallet) (log : List (Bool × Bytes)), Inv w → LogGood log →
    (∀ k, log.find? (·.2 = k) = some (true, k) → k ∈ w.annotations.map (·.1)) →
    LogGood (runOps w log ops).2 := by
  induction ops with
  | nil => intro w log _ hg _; exact hg
  | cons op rest ih =>
    intro w log hinv hg hann
    cases op with
    | handOut a c =>
      simp only [runOps]
      split
      · rename_i w' pk ho
        by_cases hne : w.unused ≠ []
        · rw [if_pos hne]
          obtain ⟨hf1, hf2, _, hinv'⟩ := handOut_fresh w w' a c pk hinv hne ho
          have han := handOut_annotations w w' a c pk hne ho
          apply ih w' _ hinv'
          · exact ⟨fun _ hfind => hf1 (hann pk hfind), hg⟩
          · intro k hfind
            by_cases hk : pk = k
            · subst hk; exact hf2
            · simp only [List.find?_cons, hk, decide_false] at hfind
              rw [han]
              simp only [List.map_append, List.mem_append, mem_map_fst_filter_ne]
              exact Or.inl ⟨hann k hfind, fun e => hk e.symm⟩
        · rw [if_neg hne]
          have he : w.unused = [] := Classical.not_not.mp hne
          rw [handOut_reuse w w' a c pk he ho]
          exact ih w log hinv hg hann
      · exact ih w log hinv hg hann
    | restore pk =>
      simp only [runOps]
      split
      · rename_i w' hr
        obtain ⟨hinv', _, _⟩ := restore_inv w w' pk hinv hr
        have han : w'.annotations = w.annotations.filter (·.1 ≠ pk) := by
          unfold Wallet.restore at hr
          split at hr
          · simp only [Option.some.injEq] at hr
            subst hr; rfl
          · simp at hr
        apply ih w' _ hinv'
        · exact ⟨fun h => by simp at h, hg⟩
        · intro k hfind
          by_cases hk : pk = k
          · subst hk
            simp at hfind
          · simp only [List.find?_cons, hk, decide_false] at hfind
            rw [han, mem_map_fst_filter_ne]
            exact ⟨hann k hfind, fun e => hk e.symm⟩
      · exact ih w log hinv hg hann
    | saveLoad =>
      simp only [runOps]
      split
      · rename_i w' hl
        have hinv' := saveLoad_inv w w' hinv hl
        rw [Wallet.load_dump] at hl
        simp only [Option.some.injEq] at hl
        subst hl
        exact ih _ log hinv' hg hann
      · exact ih w log hinv hg hann
    | addKey pk sk =>
      simp only [runOps]
      split
      · exact ih w log hinv hg hann
      · rename_i hfresh
        exact ih _ log (addKey_inv w pk sk hinv hfresh) hg hann

/-- no key is handed out twice while unused keys remain — also across save and load — unless it
was restored in between: in the log, between two hand-outs of the same key there is a restore
of that key -/
theorem no_double_handout (ops : List KeyOp) (w₀ : Wallet) (h₀ : Inv w₀)
    (pre mid post : List (Bool × Bytes)) (pk : Bytes)
    (hlog : (runOps w₀ [] ops).2 = pre ++ (true, pk) :: mid ++ (true, pk) :: post) :
    (false, pk) ∈ mid := by
  have hg := runOps_logGood ops w₀ [] h₀ trivial (by intro k h; simp at h)
  exact LogGood.restore_between _ pre mid post pk hg hlog

/-- the reported balance is the total over the wallet's keys of what the ledger holds for each -/
theorem balance_spec (w : Wallet) (bal : PKBalances) (h : Inv w) :
    w.balance bal = (w.keys.map (pkValue bal)).sum := by
  obtain ⟨h1, h2, h3, h4, h5, h6, h7⟩ := h
  unfold Wallet.balance
  apply sum_map_int_of_nodup_mem _ _ _ _ h7
  · intro k
    simp only [List.mem_append]
    constructor
    · rintro (hk | hk)
      · exact h5 k hk
      · exact h4 k hk
    · intro hk
      exact (h6 k hk).symm
  · rw [List.nodup_append]
    refine ⟨h2, h1, ?_⟩
    intro a ha b hb hab
    subst hab
    exact h3 a hb ha

/-- saving is atomic with respect to process crashes (same statement as C19.save_atomic, for
`wallet.json`): after every prefix of the save's operations the wallet file is the complete
previous or the complete new wallet -/
theorem save_atomic (fs : FS) (chunks : List Bytes) (n : Nat) :
    let fs' := ((saveOps "wallet.json" chunks).take n).foldl FS.apply fs
    (fs'.read "wallet.json" = fs.read "wallet.json" ∨ fs'.read "wallet.json" = some chunks.flatten) ∧
    (n ≥ (saveOps "wallet.json" chunks).length → fs'.read "wallet.json" = some chunks.flatten) := by
  exact saveOps_atomic fs "wallet.json" chunks n

/-- non-vacuity: a concrete two-key wallet satisfies `Inv`, and on it a hand-out, a save/load, a
restore and a second hand-out produce a log in which the restore separates the two hand-outs -/
example :
    let w := (Wallet.empty.addKey [1] [10]).addKey [2] [20]
    Inv w ∧ Wallet.load w.dump = some w ∧
    (runOps w [] [.handOut "a" 0, .saveLoad, .restore [2], .handOut "b" 0]).2 =
      [(true, [2]), (false, [2]), (true, [2])] ∧
    (runOps w [] [.handOut "a" 0, .saveLoad, .handOut "b" 0]).2 = [(true, [1]), (true, [2])] := by
  refine ⟨addKey_inv _ _ _ (addKey_inv _ _ _ empty_inv (by decide)) (by decide), ?_, ?_, ?_⟩
  · decide
  · decide
  · decide
end C15
end Model

import Model.PeerBook
import Proofs.Book
import Props.C19

/-!
C19 (clause "… and is no longer retried beyond the configured number of such failures"), stated over the *history* instead of
the node's own counter: as long as no greeting arrives on connections to an address, the node dials that address at most
`maxConnectionAttempts + 1` times, whatever else happens (other peers, announcements, incoming connections, closes, any clock).

`C19.backoff` already says that every logged attempt was made with a failure counter ≤ the limit; this theorem ties the counter
to what actually happened.
-/

namespace Model
namespace C19


variable (P : Params)

/-- number of logged attempts to `k` -/
def attemptsTo (b : Book) (k : PeerKey) : Nat := (b.attempts.filter (fun e => decide (e.1 = k))).length

theorem attemptsTo_congr {b b' : Book} (k : PeerKey) (ha : b'.attempts = b.attempts) :
    attemptsTo b' k = attemptsTo b k := by
  unfold attemptsTo; rw [ha]

/-- the invariant for the fixed key `k`: the number of logged attempts is tied to the failure counter -/
structure GInv (k : PeerKey) (b : Book) : Prop where
  disj : Book.Disj b
  conn : ∀ p, b.connected.get? k = some p →
    p.helloReceived = false ∧ attemptsTo b k ≤ p.banScore + 1 ∧ p.banScore ≤ P.maxConnectionAttempts
  disc : ∀ d, b.disconnected.get? k = some d →
    attemptsTo b k ≤ d.banScore ∧ attemptsTo b k ≤ P.maxConnectionAttempts + 1
  unknown : b.connected.get? k = none → b.disconnected.get? k = none → attemptsTo b k = 0
  inc : k.outgoing = false → attemptsTo b k = 0

variable {P}

theorem GInv.congr {k : PeerKey} {b b' : Book} (h : GInv P k b) (hc : b'.connected = b.connected)
    (hd : b'.disconnected = b.disconnected) (ha : b'.attempts = b.attempts) : GInv P k b' := by
  have hA := attemptsTo_congr k ha
  refine ⟨h.disj.congr hc hd, ?_, ?_, ?_, ?_⟩
  · rw [hA, hc]; exact h.conn
  · rw [hA, hd]; exact h.disc
  · rw [hA, hc, hd]; exact h.unknown
  · rw [hA]; exact h.inc

theorem GInv.bound {k : PeerKey} {b : Book} (h : GInv P k b) : attemptsTo b k ≤ P.maxConnectionAttempts + 1 := by
  cases hc : b.connected.get? k with
  | some p => have := h.conn p hc; omega
  | none =>
    cases hd : b.disconnected.get? k with
    | some d => exact (h.disc d hd).2
    | none => have := h.unknown hc hd; omega

theorem GInv.peerDisconnected {k : PeerKey} {b : Book} (h : GInv P k b) (k' : PeerKey) (p : ConnPeer)
    (hg : b.connected.get? k' = some p) : GInv P k (b.peerDisconnected k' p) := by
  have hA : attemptsTo (b.peerDisconnected k' p) k = attemptsTo b k :=
    attemptsTo_congr k (Book.attempts_peerDisconnected _ _ _)
  refine ⟨h.disj.peerDisconnected k' p, ?_, ?_, ?_, ?_⟩
  · intro q hq
    rw [hA]
    rw [Book.connected_peerDisconnected, Map.get?_erase] at hq
    split at hq
    · exact absurd hq (by simp)
    · exact h.conn q hq
  · intro d hd
    rw [hA]
    rw [Book.disconnected_peerDisconnected] at hd
    split at hd
    · rw [Map.get?_set] at hd
      split at hd
      · next e =>
        subst e
        simp only [Option.some.injEq] at hd
        subst hd
        have := h.conn p hg
        simp only [this.1]
        simp
        omega
      · exact h.disc d hd
    · exact h.disc d hd
  · intro hc hd
    rw [hA]
    rw [Book.connected_peerDisconnected, Map.get?_erase] at hc
    rw [Book.disconnected_peerDisconnected] at hd
    by_cases e : k = k'
    · subst e
      by_cases ho : k.outgoing = true
      · rw [if_pos ho, Map.get?_set_self] at hd
        exact absurd hd (by simp)
      · exact h.inc (by simpa using ho)
    · rw [if_neg e] at hc
      split at hd
      · rw [Map.get?_set_other _ _ _ _ (fun x => e x.symm)] at hd
        exact h.unknown hc hd
      · exact h.unknown hc hd
  · rw [hA]; exact h.inc

theorem GInv.disconnect {k : PeerKey} {b : Book} (h : GInv P k b) (k' : PeerKey) (s : Nat) :
    GInv P k (b.disconnect k' s) := by
  simp only [Book.disconnect]
  split
  · next p hp =>
    split
    · exact h.peerDisconnected k' p hp
    · exact h
  · exact h

theorem GInv.dropDup {k : PeerKey} {b : Book} (h : GInv P k b) (k' : PeerKey) : GInv P k (b.dropDup k') := by
  simp only [Book.dropDup]
  split
  · exact h.disconnect _ _
  · exact h

/-- a new connection under another key -/
theorem GInv.peerConnected_other {k : PeerKey} {b : Book} (h : GInv P k b) (k' : PeerKey) (p : ConnPeer)
    (hne : k' ≠ k) : GInv P k (b.peerConnected k' p) := by
  have h1 := h.dropDup k'
  have hA : attemptsTo (b.peerConnected k' p) k = attemptsTo (b.dropDup k') k :=
    attemptsTo_congr k rfl
  have hc : (b.peerConnected k' p).connected.get? k = (b.dropDup k').connected.get? k := by
    rw [Book.peerConnected_eq]
    exact Map.get?_set_other _ _ _ _ hne
  have hd : (b.peerConnected k' p).disconnected.get? k = (b.dropDup k').disconnected.get? k := by
    rw [Book.peerConnected_eq]
    exact Map.get?_erase_other _ _ _ (fun x => hne x.symm)
  refine ⟨h.disj.peerConnected k' p, ?_, ?_, ?_, ?_⟩
  · rw [hA, hc]; exact h1.conn
  · rw [hA, hd]; exact h1.disc
  · rw [hA, hc, hd]; exact h1.unknown
  · rw [hA]; exact h1.inc

/-- a new connection under `k` itself: only the facts about the new connection object are needed -/
theorem GInv.peerConnected_self {k : PeerKey} {b : Book} (hdisj : Book.Disj b) (p : ConnPeer)
    (hinc : k.outgoing = false → attemptsTo b k = 0)
    (hp : p.helloReceived = false ∧ attemptsTo b k ≤ p.banScore + 1 ∧ p.banScore ≤ P.maxConnectionAttempts) :
    GInv P k (b.peerConnected k p) := by
  have hA : attemptsTo (b.peerConnected k p) k = attemptsTo b k :=
    attemptsTo_congr k (Book.attempts_peerConnected _ _ _)
  have hc : (b.peerConnected k p).connected.get? k = some p := by
    rw [Book.peerConnected_eq]
    exact Map.get?_set_self _ _ _
  have hd : (b.peerConnected k p).disconnected.get? k = none := by
    rw [Book.peerConnected_eq]
    exact Map.get?_erase_self _ _
  refine ⟨hdisj.peerConnected k p, ?_, ?_, ?_, ?_⟩
  · intro q hq
    rw [hc] at hq
    simp only [Option.some.injEq] at hq
    subst hq
    rw [hA]; exact hp
  · intro d hd'
    rw [hd] at hd'
    exact absurd hd' (by simp)
  · intro hc'
    rw [hc] at hc'
    exact absurd hc' (by simp)
  · rw [hA]; exact hinc

theorem GInv.announce {k : PeerKey} {b : Book} (h : GInv P k b) (host : String) (port : Nat) :
    GInv P k (b.announce host port) := by
  simp only [Book.announce]
  split
  · exact h
  · split
    · exact h
    · next h1 h2 =>
      have h1' := (Map.contains_eq_false_iff _ _).1 (by simpa using h1)
      have h2' := (Map.contains_eq_false_iff _ _).1 (by simpa using h2)
      refine ⟨?_, h.conn, ?_, ?_, h.inc⟩
      · have := h.disj.announce host port
        simp only [Book.announce, h1, h2] at this
        exact this
      · intro d hd
        have hd' : (b.disconnected.set ⟨host, port, true⟩ ⟨none, 0⟩).get? k = some d := hd
        show attemptsTo b k ≤ d.banScore ∧ attemptsTo b k ≤ P.maxConnectionAttempts + 1
        rw [Map.get?_set] at hd'
        split at hd'
        · next e =>
          subst e
          have := h.unknown h2' h1'
          omega
        · exact h.disc d hd'
      · intro hc hd
        have hd' : (b.disconnected.set ⟨host, port, true⟩ ⟨none, 0⟩).get? k = none := hd
        show attemptsTo b k = 0
        rw [Map.get?_set] at hd'
        split at hd'
        · exact absurd hd' (by simp)
        · exact h.unknown hc hd'

theorem GInv.foldl_announce {k : PeerKey} (l : List (String × Nat)) {b : Book} (h : GInv P k b) :
    GInv P k (l.foldl (fun b (x : String × Nat) => b.announce x.1 x.2) b) := by
  induction l generalizing b with
  | nil => exact h
  | cons x rest ih => rw [List.foldl_cons]; exact ih (h.announce _ _)

/-- one connection attempt of `NetworkManager.step` -/
theorem GInv.attempt {k : PeerKey} {b : Book} (h : GInv P k b) (k' : PeerKey) (d : DiscPeer) (now : Int)
    (hd : b.disconnected.get? k' = some d) (hout : k'.outgoing = true)
    (htime : isTimeToConnect P d.banScore d.lastAttempt now = true) :
    GInv P k (Book.startOutgoing
      { b with disconnected := b.disconnected.set k' { d with lastAttempt := some now },
               attempts := (k', now, d.banScore) :: b.attempts } k' { d with lastAttempt := some now }) := by
  obtain ⟨hban, _⟩ := Book.isTimeToConnect_true htime
  have hdisj : Book.Disj { b with disconnected := b.disconnected.set k' { d with lastAttempt := some now },
                                  attempts := (k', now, d.banScore) :: b.attempts,
                                  nextSerial := b.nextSerial + 1 } :=
    h.disj.setDisc k' d _ hd rfl rfl
  simp only [Book.startOutgoing]
  by_cases e : k' = k
  · subst e
    refine GInv.peerConnected_self hdisj _ ?_ ?_
    · intro ho; rw [hout] at ho; exact absurd ho (by simp)
    · refine ⟨rfl, ?_, hban⟩
      have := (h.disc d hd).1
      show ((((k', now, d.banScore) :: b.attempts).filter (fun e => decide (e.1 = k'))).length) ≤ d.banScore + 1
      rw [List.filter_cons_of_pos (by simp)]
      simp only [List.length_cons]
      unfold attemptsTo at this
      omega
  · refine GInv.peerConnected_other ?_ _ _ e
    have hA : attemptsTo { b with disconnected := b.disconnected.set k' { d with lastAttempt := some now },
                                  attempts := (k', now, d.banScore) :: b.attempts,
                                  nextSerial := b.nextSerial + 1 } k = attemptsTo b k := by
      show ((((k', now, d.banScore) :: b.attempts).filter (fun e => decide (e.1 = k))).length) = _
      rw [List.filter_cons_of_neg (by simpa using e)]
      rfl
    refine ⟨hdisj, ?_, ?_, ?_, ?_⟩
    · rw [hA]; exact h.conn
    · rw [hA]
      intro d1 hd1
      have hd1' : (b.disconnected.set k' { d with lastAttempt := some now }).get? k = some d1 := hd1
      rw [Map.get?_set_other _ _ _ _ e] at hd1'
      exact h.disc d1 hd1'
    · rw [hA]
      intro hc1 hd1
      have hd1' : (b.disconnected.set k' { d with lastAttempt := some now }).get? k = none := hd1
      rw [Map.get?_set_other _ _ _ _ e] at hd1'
      exact h.unknown hc1 hd1'
    · rw [hA]; exact h.inc

theorem GInv.stepPeers {k : PeerKey} (now : Int) (l : List (PeerKey × DiscPeer)) {b : Book}
    (h : GInv P k b) : GInv P k (Book.stepPeers P now b l) := by
  induction l generalizing b with
  | nil => exact h
  | cons x rest ih =>
    obtain ⟨k', d0⟩ := x
    simp only [Book.stepPeers]
    split
    · exact ih h
    · next d hd =>
      split
      · next hguard =>
        simp only [Bool.and_eq_true] at hguard
        apply ih
        exact h.attempt k' d now hd hguard.1.1 hguard.2
      · exact ih h

theorem GInv.apply {k : PeerKey} {b : Book} (h : GInv P k b) (ev : BookEvent)
    (hno : ∀ mine port, ev ≠ BookEvent.hello k mine port) : GInv P k (Book.apply P b ev) := by
  cases ev with
  | step now => exact h.stepPeers now _
  | incoming host port =>
    simp only [Book.apply]
    by_cases e : (⟨host, port, false⟩ : PeerKey) = k
    · subst e
      refine GInv.peerConnected_self (b := { b with nextSerial := b.nextSerial + 1 }) h.disj _ ?_ ?_
      · intro _; exact h.inc rfl
      · refine ⟨rfl, ?_, Nat.zero_le _⟩
        have : attemptsTo b ⟨host, port, false⟩ = 0 := h.inc rfl
        show attemptsTo b ⟨host, port, false⟩ ≤ 0 + 1
        omega
    · exact GInv.peerConnected_other (b := { b with nextSerial := b.nextSerial + 1 })
        (h.congr rfl rfl rfl) _ _ e
  | hello k' mine myPort =>
    have hne : k' ≠ k := by
      intro e; subst e; exact hno mine myPort rfl
    simp only [Book.apply]
    split
    · exact h
    · next p hp =>
      have h1 : GInv P k
          { b with connected := b.connected.set k' { p with helloReceived := true, banScore := 0 } } := by
        refine ⟨h.disj.setConn k' p _ hp rfl rfl, ?_, h.disc, ?_, h.inc⟩
        · intro q hq
          have hq' : (b.connected.set k' { p with helloReceived := true, banScore := 0 }).get? k = some q := hq
          rw [Map.get?_set_other _ _ _ _ hne] at hq'
          exact h.conn q hq'
        · intro hc hd
          have hc' : (b.connected.set k' { p with helloReceived := true, banScore := 0 }).get? k = none := hc
          rw [Map.get?_set_other _ _ _ _ hne] at hc'
          exact h.unknown hc' hd
      split
      · exact h1.announce _ _
      · split
        · apply GInv.disconnect
          exact h1.congr rfl rfl rfl
        · exact h1
  | peers l => rw [Book.apply_peers_eq]; exact h.foldl_announce l
  | close k' =>
    simp only [Book.apply]
    split
    · exact h
    · exact h.disconnect _ _

theorem GInv.run {k : PeerKey} (evs : List BookEvent) {b : Book} (h : GInv P k b)
    (hno : ∀ ev ∈ evs, ∀ mine port, ev ≠ BookEvent.hello k mine port) : GInv P k (Book.run P b evs) := by
  induction evs generalizing b with
  | nil => exact h
  | cons ev rest ih =>
    simp only [Book.run, List.foldl_cons]
    exact ih (h.apply ev (hno ev List.mem_cons_self)) (fun ev' hev' => hno ev' (List.mem_cons_of_mem _ hev'))

theorem GInv.of_fresh {k : PeerKey} {b : Book} (h₀ : Fresh b)
 : GInv P k b := by
  have hA : attemptsTo b k = 0 := by unfold attemptsTo; rw [h₀.2.1]; rfl
  refine ⟨Book.Disj.of_connected_nil h₀.1, ?_, ?_, ?_, ?_⟩
  · intro p hp; rw [h₀.1] at hp; exact absurd hp (by simp)
  · intro d _; rw [hA]; exact ⟨Nat.zero_le _, Nat.zero_le _⟩
  · intro _ _; exact hA
  · intro _; exact hA

variable (P)

theorem gives_up_without_greeting (b₀ : Book) (h₀ : Fresh b₀)
    (evs : List BookEvent) (k : PeerKey)
    (hno : ∀ ev ∈ evs, ∀ mine port, ev ≠ BookEvent.hello k mine port) :
    attemptsTo (Book.run P b₀ evs) k ≤ P.maxConnectionAttempts + 1 := by
  exact (GInv.run evs (GInv.of_fresh h₀) hno).bound

/-- the bound is attained: with a limit of 1 failure the address is dialled twice (counter 0, then 1), and never again once the
second connection has closed without a greeting (counter 2 > 1), however late the clock -/
example : attemptsTo (Book.run { exParams with maxConnectionAttempts := 1 } exBook
      [.step 100, .close exKey, .step 5000, .close exKey, .step 100000, .step 100000000]) exKey
    = ({ exParams with maxConnectionAttempts := 1 } : Params).maxConnectionAttempts + 1 := by decide

end C19
end Model

import Props.C10
import Proofs.Walk

/-!
# C10 (continued) — the requester's follow-up loop offers every block it lacks

`handle_inventory_message_received`: after every non-empty inventory the requester asks again with
the locator `[last id of the inventory]` ("go ahead and ask for more inventory now"), and requests the
data of every listed block it does not store. `walk` (defined in `Proofs/Walk.lean`, namespace
`C10Walk`) is that loop against one server state.

1. `walk_lists_active_chain_from_start` (any chain state with a well-shaped active chain, any locator,
   in terms of the start height the server's scan yields), its special cases
   `walk_lists_active_chain_after_block` (locator `[id of the active-chain block at height k]`) and
   `walk_lists_active_chain_unknown_locator` (nothing known: from height 1), and
   `walk_lists_active_chain_on_built_states`: the same for every state built from a well-formed arrival
   history, with no hypothesis on the shape of the state left (`built_state_active_chain` discharges
   them).
2. `every_missing_block_offered`: a requester strictly behind the server is offered every block of
   the server's active chain that it does not store. `every_missing_block_offered_unless_not_behind`
   is the statement without "strictly behind": the only other outcome is an empty walk while the
   requester's head is at least as high as the server's. The `example` at the end shows that this
   outcome occurs (two tips of equal height), so the hypothesis cannot be dropped.
-/

namespace C10Walk
open Model

variable (C : Crypto) (P : Params)

/-! ## 1. the walk lists the active chain from the start height to the head -/

/-- 1. with enough fuel (one round per height still to list suffices) and a positive batch size, the
walk started with a locator for which the server's scan yields `start` (the height above the first
locator entry on the server's active chain, or 1 when no entry is known) lists the ids of the
server's active chain at the heights `start, start+1, …, head height`, each once, in order. -/
theorem walk_lists_active_chain_from_start (server : CoinState) (index : Map Nat Block) (hd : Block)
    (fuel start : Nat) (loc : List Bytes)
    (hidx : server.current.bind server.byHeightAt.get? = some index) (hhd : server.head = some hd)
    (hinv : 0 < P.inventorySize)
    -- ADDED HYPOTHESIS: the head's by-height index holds a block at every height up to the head's
    -- (otherwise the reply raises `KeyError` or the list has gaps)
    (hfull : ∀ h, h ≤ hd.height → ∃ blk, index.get? h = some blk)
    -- ADDED HYPOTHESIS: and none above it (otherwise the round asking with the head's own id may
    -- fall through to the `start = 1` fallback and the walk starts over)
    (htop : ∀ h, hd.height < h → index.get? h = none)
    -- ADDED HYPOTHESIS: every block of the index is stored under its id and carries the height it is
    -- indexed at (the follow-up round looks the last id up in `block_by_hash` and uses its height)
    (hstored : ∀ h blk, index.get? h = some blk →
      server.blocks.get? (blk.id C) = some blk ∧ blk.height = h)
    -- ADDED HYPOTHESIS: each block of the index names the one below it as its parent (the scan
    -- accepts a locator entry only if the next block's `previous_block_hash` is that entry)
    (hlink : ∀ h blk nxt, index.get? h = some blk → index.get? (h + 1) = some nxt →
      nxt.prev = blk.id C)
    (hscan : inventoryReply.scan server index loc = some (some start))
    (hfuel : hd.height + 1 - start ≤ fuel) :
    ∃ ids, walk C P server fuel loc = .ok ids ∧ ids.length = hd.height + 1 - start ∧
      ∀ k (hk : k < ids.length), ∃ blk, index.get? (start + k) = some blk ∧ ids[k] = blk.id C := by
  have W : ActiveChain C server index hd := ⟨hidx, hhd, hfull, htop, hstored, hlink⟩
  refine ⟨_, walk_of_scan_start C P W hinv fuel start loc hscan hfuel, chainIds_length .., ?_⟩
  intro k hk
  rw [chainIds_length] at hk
  obtain ⟨blk, hg⟩ := hfull (start + k) (by omega)
  exact ⟨blk, hg, by rw [chainIds_getElem, idAt_of_some C hg]⟩

/-- the same, for the locator `[x]` of every follow-up round (and of a requester whose head is on the
server's active chain): `x` the id of the server's active-chain block at height `k` -/
theorem walk_lists_active_chain_after_block (server : CoinState) (index : Map Nat Block) (hd : Block)
    (fuel k : Nat) (x : Block)
    (hidx : server.current.bind server.byHeightAt.get? = some index) (hhd : server.head = some hd)
    (hinv : 0 < P.inventorySize)
    -- ADDED HYPOTHESES: as in `walk_lists_active_chain_from_start`
    (hfull : ∀ h, h ≤ hd.height → ∃ blk, index.get? h = some blk)
    (htop : ∀ h, hd.height < h → index.get? h = none)
    (hstored : ∀ h blk, index.get? h = some blk →
      server.blocks.get? (blk.id C) = some blk ∧ blk.height = h)
    (hlink : ∀ h blk nxt, index.get? h = some blk → index.get? (h + 1) = some nxt →
      nxt.prev = blk.id C)
    (hx : index.get? k = some x) (hfuel : hd.height - k ≤ fuel) :
    ∃ ids, walk C P server fuel [x.id C] = .ok ids ∧ ids.length = hd.height - k ∧
      ∀ i (hi : i < ids.length), ∃ blk, index.get? (k + 1 + i) = some blk ∧ ids[i] = blk.id C := by
  have W : ActiveChain C server index hd := ⟨hidx, hhd, hfull, htop, hstored, hlink⟩
  refine ⟨_, walk_from C P W hinv fuel k x hx hfuel, chainIds_length .., ?_⟩
  intro i hi
  rw [chainIds_length] at hi
  obtain ⟨blk, hg⟩ := hfull (k + 1 + i) (by omega)
  exact ⟨blk, hg, by rw [chainIds_getElem, idAt_of_some C hg]⟩

/-- the same, for a locator none of whose entries the server knows: everything above genesis -/
theorem walk_lists_active_chain_unknown_locator (server : CoinState) (index : Map Nat Block)
    (hd : Block) (fuel : Nat) (loc : List Bytes)
    (hidx : server.current.bind server.byHeightAt.get? = some index) (hhd : server.head = some hd)
    (hinv : 0 < P.inventorySize)
    -- ADDED HYPOTHESES: as in `walk_lists_active_chain_from_start`
    (hfull : ∀ h, h ≤ hd.height → ∃ blk, index.get? h = some blk)
    (htop : ∀ h, hd.height < h → index.get? h = none)
    (hstored : ∀ h blk, index.get? h = some blk →
      server.blocks.get? (blk.id C) = some blk ∧ blk.height = h)
    (hlink : ∀ h blk nxt, index.get? h = some blk → index.get? (h + 1) = some nxt →
      nxt.prev = blk.id C)
    (hunk : ∀ x ∈ loc, server.blocks.get? x = none) (hfuel : hd.height ≤ fuel) :
    ∃ ids, walk C P server fuel loc = .ok ids ∧ ids.length = hd.height ∧
      ∀ k (hk : k < ids.length), ∃ blk, index.get? (1 + k) = some blk ∧ ids[k] = blk.id C := by
  have h := walk_lists_active_chain_from_start C P server index hd fuel 1 loc hidx hhd hinv hfull htop
    hstored hlink (scan_unknown server index loc hunk) (by omega)
  simpa using h

/-! ### the added hypotheses hold for every state built from a well-formed arrival history -/

/-- every state built by `add_block_no_validation` from a well-formed arrival history has a head and
a by-height index of the head … -/
theorem built_state_has_head (bs : List Block) (s : CoinState) (hwf : WFArrivals C bs)
    (hf : foldBlocks C .empty bs = .ok s) :
    ∃ index hd, s.current.bind s.byHeightAt.get? = some index ∧ s.head = some hd := by
  obtain ⟨index, hd, B⟩ := built_exists C bs s hwf hf
  exact ⟨index, hd, B.chain.cur, B.chain.head⟩

/-- … and they satisfy the four added hypotheses of `walk_lists_active_chain_from_start` -/
theorem built_state_active_chain (bs : List Block) (s : CoinState) (hwf : WFArrivals C bs)
    (hf : foldBlocks C .empty bs = .ok s) (index : Map Nat Block) (hd : Block)
    (hidx : s.current.bind s.byHeightAt.get? = some index) (hhd : s.head = some hd) :
    (∀ h, h ≤ hd.height → ∃ blk, index.get? h = some blk) ∧
    (∀ h, hd.height < h → index.get? h = none) ∧
    (∀ h blk, index.get? h = some blk → s.blocks.get? (blk.id C) = some blk ∧ blk.height = h) ∧
    (∀ h blk nxt, index.get? h = some blk → index.get? (h + 1) = some nxt → nxt.prev = blk.id C) := by
  have B := (built C bs s hwf hf index hd hidx hhd).chain
  exact ⟨B.full, B.top, B.stored, B.link⟩

/-- 1, for built states: no hypothesis on the shape of the server's state is left -/
theorem walk_lists_active_chain_on_built_states (bs : List Block) (server : CoinState)
    (hwf : WFArrivals C bs) (hf : foldBlocks C .empty bs = .ok server)
    (index : Map Nat Block) (hd : Block) (fuel start : Nat) (loc : List Bytes)
    (hidx : server.current.bind server.byHeightAt.get? = some index) (hhd : server.head = some hd)
    (hinv : 0 < P.inventorySize)
    (hscan : inventoryReply.scan server index loc = some (some start))
    (hfuel : hd.height + 1 - start ≤ fuel) :
    ∃ ids, walk C P server fuel loc = .ok ids ∧ ids.length = hd.height + 1 - start ∧
      ∀ k (hk : k < ids.length), ∃ blk, index.get? (start + k) = some blk ∧ ids[k] = blk.id C := by
  obtain ⟨h1, h2, h3, h4⟩ := built_state_active_chain C bs server hwf hf index hd hidx hhd
  exact walk_lists_active_chain_from_start C P server index hd fuel start loc hidx hhd hinv h1 h2 h3 h4
    hscan hfuel

/-- the follow-up rounds on built states: after the id of the active-chain block at height `k`,
everything above `k` -/
theorem walk_lists_active_chain_after_block_on_built_states (bs : List Block) (server : CoinState)
    (hwf : WFArrivals C bs) (hf : foldBlocks C .empty bs = .ok server)
    (index : Map Nat Block) (hd : Block) (fuel k : Nat) (x : Block)
    (hidx : server.current.bind server.byHeightAt.get? = some index) (hhd : server.head = some hd)
    (hinv : 0 < P.inventorySize) (hx : index.get? k = some x) (hfuel : hd.height - k ≤ fuel) :
    ∃ ids, walk C P server fuel [x.id C] = .ok ids ∧ ids.length = hd.height - k ∧
      ∀ i (hi : i < ids.length), ∃ blk, index.get? (k + 1 + i) = some blk ∧ ids[i] = blk.id C := by
  obtain ⟨h1, h2, h3, h4⟩ := built_state_active_chain C bs server hwf hf index hd hidx hhd
  exact walk_lists_active_chain_after_block C P server index hd fuel k x hidx hhd hinv h1 h2 h3 h4
    hx hfuel

/-! ## 2. every block the requester lacks is offered -/

/-- a requester built from a well-formed history can always build its locator -/
theorem locator_ok_on_built_states (rs : List Block) (req : CoinState) (hwf : WFArrivals C rs)
    (hf : foldBlocks C .empty rs = .ok req) : ∃ loc, locator C req = .ok loc := by
  obtain ⟨rindex, rhd, B⟩ := built_exists C rs req hwf hf
  exact ⟨_, locator_built_ok C B⟩

/-- the general form of 2: requester and server built from well-formed histories with the same first
(genesis) block; the walk with the requester's locator succeeds, and either every block of the
server's active chain is listed or already stored by the requester under that id, or the walk lists
nothing and the requester's head is at least as high as the server's (the scan hit a locator entry
the server stores at its own head height: "we have no new info") -/
theorem every_missing_block_offered_unless_not_behind (rs ss : List Block) (req srv : CoinState)
    (hwfr : WFArrivals C rs) (hfr : foldBlocks C .empty rs = .ok req)
    (hwfs : WFArrivals C ss) (hfs : foldBlocks C .empty ss = .ok srv)
    (hgen : rs.head? = ss.head?)
    -- ADDED HYPOTHESIS: no id collision *between* the two histories (inside one history
    -- `WFArrivals` already demands distinct ids): blocks of the two histories with the same id have
    -- the same parent reference and height (in particular if they are the same block). Ids are
    -- cached hashes of arbitrary origin in the model, so this cannot be a `Collision C.sha256d`
    -- disjunct.
    (hcompat : ∀ a ∈ rs, ∀ b ∈ ss, a.id C = b.id C → a.prev = b.prev ∧ a.height = b.height)
    (index : Map Nat Block) (hd rhd : Block)
    (hidx : srv.current.bind srv.byHeightAt.get? = some index) (hhd : srv.head = some hd)
    (hrhd : req.head = some rhd)
    (hinv : 0 < P.inventorySize) (fuel : Nat) (hfuel : hd.height ≤ fuel)
    (loc : List Bytes) (hloc : locator C req = .ok loc) :
    ∃ ids, walk C P srv fuel loc = .ok ids ∧
      ((∀ h blk, h ≤ hd.height → index.get? h = some blk →
          blk.id C ∈ ids ∨ (req.blocks.get? (blk.id C)).isSome = true) ∨
       (ids = [] ∧ hd.height ≤ rhd.height)) := by
  have Bs := built C ss srv hwfs hfs index hd hidx hhd
  obtain ⟨rindex, rhd', Br⟩ := built_exists C rs req hwfr hfr
  have e : rhd' = rhd := Option.some.inj (Br.chain.head.symm.trans hrhd)
  subst e
  obtain ⟨ids, hw, h⟩ := offered_or_stored C P Bs Br hcompat hgen hinv fuel hfuel loc hloc
  refine ⟨ids, hw, ?_⟩
  rcases h with h | h
  · exact Or.inl fun h' blk _ hg => h h' blk hg
  · exact Or.inr h

/-- 2. for a requester strictly behind the server (its head is lower than the server's), whose
locator was built (by `Model.locator`) from its own well-formed state sharing the genesis block with
the server: with enough fuel the walk succeeds, and every block of the server's active chain is
either listed by the walk or already stored by the requester (under that id). -/
theorem every_missing_block_offered (rs ss : List Block) (req srv : CoinState)
    (hwfr : WFArrivals C rs) (hfr : foldBlocks C .empty rs = .ok req)
    (hwfs : WFArrivals C ss) (hfs : foldBlocks C .empty ss = .ok srv)
    (hgen : rs.head? = ss.head?)
    -- ADDED HYPOTHESIS: no id collision between the two histories (see
    -- `every_missing_block_offered_unless_not_behind`)
    (hcompat : ∀ a ∈ rs, ∀ b ∈ ss, a.id C = b.id C → a.prev = b.prev ∧ a.height = b.height)
    (index : Map Nat Block) (hd rhd : Block)
    (hidx : srv.current.bind srv.byHeightAt.get? = some index) (hhd : srv.head = some hd)
    (hrhd : req.head = some rhd)
    -- ADDED HYPOTHESIS: the requester is strictly behind. Without it the statement is false: a
    -- requester whose head is a stored side-branch tip of the server, as high as the server's head,
    -- gets an empty inventory ("we have no new info") and is never offered the server's head — the
    -- last `example` of this file.
    (hbehind : rhd.height < hd.height)
    (hinv : 0 < P.inventorySize) (fuel : Nat) (hfuel : hd.height ≤ fuel)
    (loc : List Bytes) (hloc : locator C req = .ok loc) :
    ∃ ids, walk C P srv fuel loc = .ok ids ∧
      ∀ h blk, h ≤ hd.height → index.get? h = some blk →
        blk.id C ∈ ids ∨ (req.blocks.get? (blk.id C)).isSome = true := by
  obtain ⟨ids, hw, h⟩ := every_missing_block_offered_unless_not_behind C P rs ss req srv hwfr hfr
    hwfs hfs hgen hcompat index hd rhd hidx hhd hrhd hinv fuel hfuel loc hloc
  rcases h with h | ⟨-, h⟩
  · exact ⟨ids, hw, h⟩
  · omega

/-! ## non-vacuity -/

section Examples

/-- a coinbase-only body, a genesis block, two children of it and a grandchild; ids are the cached
hashes `[1]`, `[2]`, `[3]`, `[4]` (as for blocks read from the wire or the block store) -/
def exCb : CTx := ⟨⟨[], [⟨10, [5]⟩]⟩, some [7]⟩
def exG : Block := ⟨⟨⟨0, zeros 32, [], 0, [], 0⟩, ⟨[], [], []⟩⟩, [exCb], some [1]⟩
def exA : Block := ⟨⟨⟨1, [1], [], 0, [], 0⟩, ⟨[], [], []⟩⟩, [exCb], some [2]⟩
def exB : Block := ⟨⟨⟨1, [1], [], 1, [], 0⟩, ⟨[], [], []⟩⟩, [exCb], some [3]⟩
def exA2 : Block := ⟨⟨⟨2, [2], [], 0, [], 0⟩, ⟨[], [], []⟩⟩, [exCb], some [4]⟩

theorem exWF_G : WFArrivals C [exG] :=
  .genesis exG rfl rfl (by show ([1] : Bytes) ≠ zeros 32; decide)

theorem exWF_GA : WFArrivals C [exG, exA] :=
  .snoc [exG] exA exG (exWF_G C) (List.mem_singleton.2 rfl) rfl rfl
    (by show ([2] : Bytes) ≠ zeros 32; decide)
    (by intro c hc; rw [List.mem_singleton.1 hc]; show ([1] : Bytes) ≠ [2]; decide)

theorem exWF_GAA : WFArrivals C [exG, exA, exA2] :=
  .snoc [exG, exA] exA2 exA (exWF_GA C) (by simp) rfl rfl
    (by show ([4] : Bytes) ≠ zeros 32; decide)
    (by
      intro c hc
      simp only [List.mem_cons, List.not_mem_nil, or_false] at hc
      rcases hc with rfl | rfl
      · show ([1] : Bytes) ≠ [4]; decide
      · show ([2] : Bytes) ≠ [4]; decide)

theorem exWF_GAB : WFArrivals C [exG, exA, exB] :=
  .snoc [exG, exA] exB exG (exWF_GA C) (by simp) rfl rfl
    (by show ([3] : Bytes) ≠ zeros 32; decide)
    (by
      intro c hc
      simp only [List.mem_cons, List.not_mem_nil, or_false] at hc
      rcases hc with rfl | rfl
      · show ([1] : Bytes) ≠ [3]; decide
      · show ([2] : Bytes) ≠ [3]; decide)

theorem exWF_GB : WFArrivals C [exG, exB] :=
  .snoc [exG] exB exG (exWF_G C) (List.mem_singleton.2 rfl) rfl rfl
    (by show ([3] : Bytes) ≠ zeros 32; decide)
    (by intro c hc; rw [List.mem_singleton.1 hc]; show ([1] : Bytes) ≠ [3]; decide)

/-- the hypotheses of 1 are satisfiable: the three-block chain `G ← A ← A2` is a built state, a
locator holding only the genesis id makes the scan yield `start = 1`, and the walk (batch size 1,
three rounds) lists `A` and `A2` in order -/
example : ∃ (server : CoinState) (index : Map Nat Block) (hd : Block),
    WFArrivals C [exG, exA, exA2] ∧ foldBlocks C .empty [exG, exA, exA2] = .ok server ∧
    server.current.bind server.byHeightAt.get? = some index ∧ server.head = some hd ∧
    hd.height = 2 ∧ inventoryReply.scan server index [[1]] = some (some 1) ∧
    walk C { P with inventorySize := 1 } server 2 [[1]] = .ok [[2], [4]] :=
  ⟨_, _, _, exWF_GAA C, rfl, rfl, rfl, rfl, rfl, rfl⟩

/-- the hypotheses of 2 are satisfiable (requester `G`, server `G ← A ← A2`; the requester is
offered `A` and `A2`) -/
example : ∃ (req srv : CoinState) (index : Map Nat Block) (hd rhd : Block) (loc : List Bytes),
    WFArrivals C [exG] ∧ foldBlocks C .empty [exG] = .ok req ∧
    WFArrivals C [exG, exA, exA2] ∧ foldBlocks C .empty [exG, exA, exA2] = .ok srv ∧
    [exG].head? = [exG, exA, exA2].head? ∧
    (∀ a ∈ [exG], ∀ b ∈ [exG, exA, exA2], a.id C = b.id C → a.prev = b.prev ∧ a.height = b.height) ∧
    srv.current.bind srv.byHeightAt.get? = some index ∧ srv.head = some hd ∧ req.head = some rhd ∧
    rhd.height < hd.height ∧ locator C req = .ok loc ∧
    walk C { P with inventorySize := 1 } srv 2 loc = .ok [[2], [4]] := by
  refine ⟨_, _, _, _, _, _, exWF_G C, rfl, exWF_GAA C, rfl, rfl, ?_, rfl, rfl, rfl, by decide, rfl, rfl⟩
  intro a ha b hb h
  simp only [List.mem_cons, List.not_mem_nil, or_false] at ha hb
  subst ha
  rcases hb with rfl | rfl | rfl
  · exact ⟨rfl, rfl⟩
  · exact absurd h (by show ([1] : Bytes) ≠ [2]; decide)
  · exact absurd h (by show ([1] : Bytes) ≠ [4]; decide)

/-- "strictly behind" cannot be dropped from 2: the server saw `G, A, B` (head `A`, the first of the
two tips of height 1), the requester saw `G, B`. Every other hypothesis of
`every_missing_block_offered` holds, the requester's locator is `[id B, id G]`, the server stores `B`
at its own head height and answers with an empty inventory; the walk lists nothing although the
requester does not store the server's head `A`. -/
example : ∃ (req srv : CoinState) (index : Map Nat Block) (hd rhd : Block) (loc : List Bytes),
    WFArrivals C [exG, exB] ∧ foldBlocks C .empty [exG, exB] = .ok req ∧
    WFArrivals C [exG, exA, exB] ∧ foldBlocks C .empty [exG, exA, exB] = .ok srv ∧
    [exG, exB].head? = [exG, exA, exB].head? ∧
    (∀ a ∈ [exG, exB], ∀ b ∈ [exG, exA, exB], a.id C = b.id C →
      a.prev = b.prev ∧ a.height = b.height) ∧
    srv.current.bind srv.byHeightAt.get? = some index ∧ srv.head = some hd ∧ req.head = some rhd ∧
    rhd.height = hd.height ∧ locator C req = .ok loc ∧
    (∀ fuel, walk C P srv fuel loc = .ok []) ∧
    index.get? 1 = some hd ∧ req.blocks.get? (hd.id C) = none := by
  refine ⟨_, _, _, _, _, _, exWF_GB C, rfl, exWF_GAB C, rfl, rfl, ?_, rfl, rfl, rfl, rfl, rfl, ?_,
    rfl, rfl⟩
  · intro a ha b hb h
    simp only [List.mem_cons, List.not_mem_nil, or_false] at ha hb
    rcases ha with rfl | rfl <;> rcases hb with rfl | rfl | rfl
    · exact ⟨rfl, rfl⟩
    · exact absurd h (by show ([1] : Bytes) ≠ [2]; decide)
    · exact absurd h (by show ([1] : Bytes) ≠ [3]; decide)
    · exact absurd h (by show ([3] : Bytes) ≠ [1]; decide)
    · exact absurd h (by show ([3] : Bytes) ≠ [2]; decide)
    · exact ⟨rfl, rfl⟩
  · intro fuel
    cases fuel with
    | zero => rfl
    | succ fuel => rfl

end Examples

end C10Walk

import Props.C18
import Proofs.Chain

/-!
C18 at the level of whole histories: a chain state all of whose blocks went through full validation (`CoinState.add_block`)
holds, at every checkpointed height at or below the horizon, only the block with the checkpoint's id; and a block that is the
first above the horizon can only be added on top of the block with the last checkpoint's id — so every fully validated history
that crosses the horizon passes through the last checkpoint (no alternative history "jumps over" it: above the horizon a block's
height is its parent's plus one).
-/

namespace Model
namespace C18

variable (C : Crypto) (P : Params)

/-- a chain state all of whose blocks went through full validation -/
inductive FullyValidated : CoinState → Prop where
  | empty : FullyValidated .empty
  | add (cs cs' : CoinState) (b : Block) (now : Int) :
      FullyValidated cs → addBlock C P cs b now = .ok cs' → FullyValidated cs'

/-- the invariant of fully validated states: every stored block is stored under its own id and, at a checkpointed height at
or below the horizon, has the checkpoint's id -/
theorem stored_blocks_invariant (cs : CoinState) (hv : FullyValidated C P cs) :
    ∀ k v, cs.blocks.get? k = some v →
      v.id C = k ∧ ((v.height : Int) ≤ P.maxKnownHeight → ∀ h, P.knownHashes.lookup v.height = some h → v.id C = h) := by
  induction hv with
  | empty => intro k v hg; rw [show CoinState.empty.blocks = [] from rfl, Map.get?_nil] at hg; cases hg
  | add cs cs' b now _ ha ih =>
    intro k v hg
    obtain ⟨_, _, h3⟩ := addBlock_ok C P cs cs' b now ha
    obtain ⟨hb, -⟩ := add_ok_inv C h3
    rw [hb, Map.get?_set] at hg
    by_cases hk : b.id C = k
    · rw [if_pos hk] at hg
      cases hg
      exact ⟨hk, fun hle h hl => no_alternative_history C P cs cs' b now h ha hle hl⟩
    · rw [if_neg hk] at hg
      exact ih k v hg

/-- every stored block at a checkpointed height at or below the horizon has the checkpoint's id -/
theorem stored_blocks_respect_checkpoints (cs : CoinState) (hv : FullyValidated C P cs) (b : Block)
    (hb : cs.blocks.get? (b.id C) = some b) (hle : (b.height : Int) ≤ P.maxKnownHeight) (h : Bytes)
    (hk : P.knownHashes.lookup b.height = some h) : b.id C = h :=
  (stored_blocks_invariant C P cs hv _ _ hb).2 hle h hk

/-- the first block above the horizon sits on the block with the last checkpoint's id -/
theorem crossing_the_horizon_passes_the_checkpoint (cs cs' : CoinState) (hv : FullyValidated C P cs) (b : Block) (now : Int)
    (ha : addBlock C P cs b now = .ok cs') (hH : (b.height : Int) = P.maxKnownHeight + 1) (h : Bytes)
    (hk : P.knownHashes.lookup (b.height - 1) = some h) : b.prev = h := by
  obtain ⟨_, h2, _⟩ := addBlock_ok C P cs cs' b now ha
  obtain ⟨pb, hpb, _, hht, _⟩ := (validateBlockInState_ok C P cs b (by omega) h2).parent
  obtain ⟨hid, hcp⟩ := stored_blocks_invariant C P cs hv _ _ hpb
  have he : b.height - 1 = pb.height := by omega
  rw [he] at hk
  rw [← hid]
  exact hcp (by omega) h hk

end C18
end Model

import Model.Spec
import Proofs.Map
import Proofs.Replay
import Proofs.Balance

/-!
# C03 (continued) — each key's balance equals the sum, and lists exactly the references, of the
unspent outputs paying that key

Stated for the replay of a chain (which is what the node reports at every stored block:
`C03.utxo_is_replay`, `C03.balances_are_replay`). `Sane` is the explicit, decidable side
condition: while the chain is replayed every reference a transaction creates is new to the
unspent set (no transaction id recurs while its outputs are unspent). The first two clauses of
chain sanity — spent references present and distinct — are implied by the replay succeeding.

`FreshVsParent` is a second explicit, decidable side condition that had to be ADDED to
`balance_is_sum`: no transaction of a block creates a reference that is a key of the unspent set
the block started from. `Sane` checks freshness against the *running* set only, whereas
`pkb_apply_block` looks spent outputs up in the *parent's* set: a block that spends `r`, creates
`r` again (same transaction id and index, another output) and spends it a second time passes
`Sane`, replays without error, and leaves balances that disagree with the unspent set. The
counterexample is checked at the end of this file (`balance_is_sum_needs_freshVsParent`).
-/

namespace Model
namespace C03

variable (C : Crypto)

/-- the outputs `(txid, i)` for `i = start, start+1, …` are all absent from `u` -/
def freshOutputs (u : Utxo) (txid : Bytes) : Nat → Nat → Bool
  | 0, _ => true
  | n + 1, start => !(u.contains ⟨txid, start⟩) && freshOutputs u txid n (start + 1)

/-- replaying the transactions of a block (the first one as reward), every created reference is
new at the moment it is created, and a transaction's inputs are pairwise distinct -/
def saneTxs : Utxo → List CTx → Bool → Bool
  | _, [], _ => true
  | u, t :: rest, isCoinbase =>
    freshOutputs (match (if isCoinbase then Except.ok u else removeInputs u t.tx.inputs) with
                  | .ok u₁ => u₁ | .error _ => u) (t.id C) t.tx.outputs.length 0 &&
    (isCoinbase || decide (t.tx.inputs.map (·.ref)).Nodup) &&
    (match utoApplyTx C u t isCoinbase with
     | .ok u' => saneTxs u' rest false
     | .error _ => true)

/-- chain sanity, following the replay -/
def Sane : List Block → Utxo → Bool
  | [], _ => true
  | b :: rest, u =>
    saneTxs C u b.txs true &&
    (match utoApplyBlock C u b with
     | .ok u' => Sane rest u'
     | .error _ => true)

/-- ADDED side condition, transactions of one block: every reference a transaction creates is
absent from `u₀`, the unspent set before the block -/
def freshVsParentTxs (u₀ : Utxo) : List CTx → Bool
  | [] => true
  | t :: rest => freshOutputs u₀ (t.id C) t.tx.outputs.length 0 && freshVsParentTxs u₀ rest

/-- ADDED side condition, following the replay: no transaction of a block creates a reference
that is a key of the unspent set before the block -/
def FreshVsParent : List Block → Utxo → Bool
  | [], _ => true
  | b :: rest, u =>
    freshVsParentTxs C u b.txs &&
    (match utoApplyBlock C u b with
     | .ok u' => FreshVsParent rest u'
     | .error _ => true)

/-- the value a key holds in an unspent set -/
def utxoValue (u : Utxo) (pk : Bytes) : Int :=
  ((u.filter (fun e => e.2.pk = pk)).map (fun e => (e.2.value : Int))).sum

/-- the references paying a key in an unspent set -/
def utxoRefs (u : Utxo) (pk : Bytes) : List OutRef := (u.filter (fun e => e.2.pk = pk)).map (·.1)

/-! ## the invariant along the replay -/

theorem freshOutputs_spec (u : Utxo) (txid : Bytes) : ∀ (n start : Nat),
    freshOutputs u txid n start = true →
    ∀ i, start ≤ i → i < start + n → u.contains ⟨txid, i⟩ = false := by
  intro n
  induction n with
  | zero => intro start _ i h1 h2; omega
  | succ n ih =>
    intro start h i h1 h2
    simp only [freshOutputs, Bool.and_eq_true, Bool.not_eq_true'] at h
    by_cases hi : i = start
    · subst hi; exact h.1
    · exact ih (start + 1) h.2 i (by omega) (by omega)

theorem freshOutputs_zero (u : Utxo) (txid : Bytes) (n : Nat)
    (h : freshOutputs u txid n 0 = true) : ∀ i, i < n → u.contains ⟨txid, i⟩ = false :=
  fun i hi => freshOutputs_spec u txid n 0 h i (Nat.zero_le _) (by omega)

/-- the transactions of a block after the reward: the running pair `(u, p)` stays in agreement
although `pkbApplyTxs` looks spent outputs up in the parent's set `u₀` -/
theorem agree_txs (u₀ : Utxo) : ∀ (txs : List CTx) (u : Utxo) (p : PKBalances) (u' : Utxo)
    (p' : PKBalances), Bal.Agree u p → Bal.Compat u u₀ → utoApplyTxs C u txs = .ok u' →
    pkbApplyTxs C u₀ p txs = .ok p' → saneTxs C u txs false = true →
    freshVsParentTxs C u₀ txs = true → Bal.Agree u' p' := by
  intro txs
  induction txs with
  | nil =>
    intro u p u' p' ha _ hu hp _ _
    cases hu; cases hp
    exact ha
  | cons t rest ih =>
    intro u p u' p' ha hc hu hp hs hf
    obtain ⟨u₂, hu1, hu2⟩ := Bal.utoApplyTxs_cons_ok C hu
    obtain ⟨p₂, hp1, hp2⟩ := Bal.pkbApplyTxs_cons_ok C hp
    obtain ⟨u₁, hrem, rfl⟩ := Bal.utoApplyTx_false_ok C hu1
    obtain ⟨p₁, hsp, rfl⟩ := Bal.pkbApplyTx_false_ok C hp1
    unfold saneTxs at hs
    simp only [Bool.false_eq_true, ↓reduceIte, hrem, hu1, Bool.and_eq_true] at hs
    unfold freshVsParentTxs at hf
    simp only [Bool.and_eq_true] at hf
    obtain ⟨ha', hc'⟩ := Bal.agree_tx C t ha hc hrem hsp
      (freshOutputs_zero _ _ _ hs.1.1) (freshOutputs_zero _ _ _ hf.1)
    exact ih _ _ _ _ ha' hc' hu2 hp2 hs.2 hf.2

/-- one block -/
theorem agree_block {u₀ u' : Utxo} {p₀ p' : PKBalances} {b : Block} (ha : Bal.Agree u₀ p₀)
    (hu : utoApplyBlock C u₀ b = .ok u') (hp : pkbApplyBlock C u₀ p₀ b = .ok p')
    (hs : saneTxs C u₀ b.txs true = true) (hf : freshVsParentTxs C u₀ b.txs = true) :
    Bal.Agree u' p' := by
  obtain ⟨cb, rest, hb, hu2⟩ := Bal.utoApplyBlock_ok C hu
  obtain ⟨cb', rest', hb', hp2⟩ := Bal.pkbApplyBlock_ok C hp
  rw [hb] at hb'
  cases hb'
  rw [hb] at hs hf
  unfold saneTxs at hs
  simp only [↓reduceIte, Bal.utoApplyTx_true, Bool.true_or, Bool.and_true,
    Bool.and_eq_true] at hs
  unfold freshVsParentTxs at hf
  simp only [Bool.and_eq_true] at hf
  obtain ⟨ha', hc'⟩ := Bal.agree_coinbase C cb ha (freshOutputs_zero _ _ _ hs.1)
  exact agree_txs C u₀ rest _ _ _ _ ha' hc' hu2 hp2 hs.2 hf.2

/-- the whole chain, from any agreeing starting point -/
theorem agree_replay : ∀ (chain : List Block) (u₀ : Utxo) (p₀ : PKBalances) (u : Utxo)
    (p : PKBalances), Bal.Agree u₀ p₀ → replay C chain u₀ p₀ = .ok (u, p) →
    Sane C chain u₀ = true → FreshVsParent C chain u₀ = true → Bal.Agree u p := by
  intro chain
  induction chain with
  | nil =>
    intro u₀ p₀ u p ha hr _ _
    cases hr
    exact ha
  | cons b rest ih =>
    intro u₀ p₀ u p ha hr hs hf
    obtain ⟨p', u', hp, hu, hr'⟩ := Bal.replay_cons_ok C hr
    unfold Sane at hs
    unfold FreshVsParent at hf
    simp only [hu, Bool.and_eq_true] at hs hf
    exact ih _ _ _ _ (agree_block C ha hu hp hs.1 hf.1) hr' hs.2 hf.2

/-- each key's balance equals the sum, and lists exactly the references (as a set with
multiplicities), of the unspent outputs paying that key -/
theorem balance_is_sum (chain : List Block) (u : Utxo) (p : PKBalances)
    (hr : replay C chain [] [] = .ok (u, p)) (hs : Sane C chain [] = true)
    -- ADDED HYPOTHESIS: no transaction of a block re-creates a reference that was unspent when
    -- the block started (false without it: `balance_is_sum_needs_freshVsParent` below)
    (hf : FreshVsParent C chain [] = true) (pk : Bytes) :
    (match p.get? pk with
     | some bal => bal.value = utxoValue u pk ∧ bal.refs.Perm (utxoRefs u pk)
     | none => utxoRefs u pk = []) := by
  have h := (agree_replay C chain [] [] u p Bal.agree_nil hr hs hf).2 pk
  cases hg : p.get? pk with
  | none => rw [hg] at h; exact h
  | some bal => rw [hg] at h; exact h

/-- the keys of the unspent set stay pairwise distinct along a sane replay (so "the unspent
output with reference r" is well defined) -/
theorem replay_keys_nodup (chain : List Block) (u : Utxo) (p : PKBalances)
    (hr : replay C chain [] [] = .ok (u, p)) : (u.map (·.1)).Nodup :=
  Bal.nodup_replay C chain [] [] u p List.nodup_nil hr

/-! ## non-vacuity, and necessity of the added hypothesis -/

namespace Demo

def crypto : Crypto := ⟨fun b => b, fun b => b, fun _ b => b, fun _ _ _ => true⟩
def hdr : Header := ⟨⟨0, [], [], 0, [], 0⟩, ⟨[], [], []⟩⟩

/-- reward-only genesis: 10 to key `[7]` -/
def genesis : Block := ⟨hdr, [⟨⟨[], [⟨10, [7]⟩]⟩, some [1]⟩], some [100]⟩

/-- a reward (10 to key `[8]`) and one spend: key `[7]` pays 4 to `[9]` and keeps 6 -/
def block1 : Block := ⟨hdr,
  [⟨⟨[], [⟨10, [8]⟩]⟩, some [2]⟩,
   ⟨⟨[⟨⟨[1], 0⟩, .signable⟩], [⟨4, [9]⟩, ⟨6, [7]⟩]⟩, some [3]⟩], some [101]⟩

/-- spends `([1], 0)`, creates `([1], 0)` again with another output, spends it again -/
def badBlock : Block := ⟨hdr,
  [⟨⟨[], [⟨10, [8]⟩]⟩, some [2]⟩,
   ⟨⟨[⟨⟨[1], 0⟩, .signable⟩], []⟩, some [3]⟩,
   ⟨⟨[], [⟨7, [9]⟩]⟩, some [1]⟩,
   ⟨⟨[⟨⟨[1], 0⟩, .signable⟩], []⟩, some [4]⟩], some [102]⟩

end Demo

open Demo in
/-- non-vacuity: a two-block chain for which the replay succeeds and both side conditions hold -/
example : ∃ u p, replay crypto [genesis, block1] [] [] = .ok (u, p) ∧
    Sane crypto [genesis, block1] [] = true ∧ FreshVsParent crypto [genesis, block1] [] = true ∧
    p.get? [7] = some ⟨6, [⟨[3], 1⟩]⟩ ∧ utxoValue u [7] = 6 :=
  ⟨_, _, rfl, by decide, by decide, by decide, by decide⟩

open Demo in
/-- without `FreshVsParent` the statement of `balance_is_sum` is false: this chain replays
without error and is `Sane`, yet key `[7]` ends with balance `-10` while no unspent output pays
it -/
theorem balance_is_sum_needs_freshVsParent : ∃ u p bal,
    replay crypto [genesis, badBlock] [] [] = .ok (u, p) ∧
    Sane crypto [genesis, badBlock] [] = true ∧
    FreshVsParent crypto [genesis, badBlock] [] = false ∧
    p.get? [7] = some bal ∧ bal.value ≠ utxoValue u [7] :=
  ⟨_, _, _, rfl, by decide, by decide, rfl, by decide⟩

end C03
end Model

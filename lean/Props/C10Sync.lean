import Model.Node
import Model.Spec
import Proofs.Walk
import Props.C03
import Props.C10Walk
import Proofs.NodeLemmas
import Proofs.Sync2

/-!
# C10 (continued) — catching up, at the level of the ledger and of the block handler

`C10Walk.every_missing_block_offered` says that the follow-up loop started by a node that is behind lists every block of the
server's active chain that the node does not store. This file adds what happens when those blocks then arrive, lowest first (the
order in which they are listed and requested):

* `catch_up`: applying the missing blocks of the server's active chain, in height order, to the requester's chain state succeeds
  and yields a state that stores the whole active chain of the server and whose head is at least as high as the server's;
* `solicited_delivery_is_add`: for a block that arrives as an answer (`in_response_to ≠ 0`), is new, has a stored parent, passes
  the by-itself validation and is not at a height where bulk download validates (`height % IBD_VALIDATION_SKIP ≠ 0`), the handler
  `handleBlockReceived` installs exactly `addBlockNoValidation` of the served state (not validated), buffers the block, and lets
  nothing escape.

Together: one requester that is behind, one server, the blocks of the walk delivered in order — the requester ends at least as
high as the server. (Interleavings of several peers remain executed, not proved.)
-/

namespace C10Sync
open Model

variable (C : Crypto) (P : Params)

/-- the server's active chain from genesis to its head, lowest first -/
def activeChain (index : Map Nat Block) (hd : Block) : List Block :=
  (List.range (hd.height + 1)).filterMap index.get?

/-- the blocks of the server's active chain that the requester does not store, lowest first -/
def missing (req : CoinState) (index : Map Nat Block) (hd : Block) : List Block :=
  (activeChain index hd).filter fun b => !(req.blocks.contains (b.id C))

/-- the missing blocks among the first `n` heights of the active chain -/
def missingTo (req : CoinState) (index : Map Nat Block) (n : Nat) : List Block :=
  ((List.range n).filterMap index.get?).filter fun b => !(req.blocks.contains (b.id C))

theorem missing_eq (req : CoinState) (index : Map Nat Block) (hd : Block) :
    missing C req index hd = missingTo C req index (hd.height + 1) := rfl

theorem missingTo_succ (req : CoinState) (index : Map Nat Block) (n : Nat) (a : Block)
    (h : index.get? n = some a) :
    missingTo C req index (n + 1) =
      missingTo C req index n ++ (if req.blocks.contains (a.id C) = true then [] else [a]) := by
  unfold missingTo
  rw [List.range_succ, List.filterMap_append, List.filter_append]
  congr 1
  by_cases hc : req.blocks.contains (a.id C) = true <;> simp [h, hc]

theorem mem_missingTo {req : CoinState} {index : Map Nat Block} {n : Nat} {x : Block}
    (hx : x ∈ missingTo C req index n) : ∃ j, j < n ∧ index.get? j = some x := by
  unfold missingTo at hx
  obtain ⟨h1, -⟩ := List.mem_filter.1 hx
  obtain ⟨j, hj, hg⟩ := List.mem_filterMap.1 h1
  exact ⟨j, List.mem_range.1 hj, hg⟩

theorem catch_up (rs ss : List Block) (req srv : CoinState)
    (hwfr : WFArrivals C rs) (hfr : foldBlocks C .empty rs = .ok req)
    (hwfs : WFArrivals C ss) (hfs : foldBlocks C .empty ss = .ok srv)
    (hgen : rs.head? = ss.head?)
    -- no id collision between the two histories: equal ids mean equal blocks
    (hsame : ∀ a ∈ rs, ∀ b ∈ ss, a.id C = b.id C → a = b)
    (index : Map Nat Block) (hd : Block)
    (hidx : srv.current.bind srv.byHeightAt.get? = some index) (hhd : srv.head = some hd) :
    ∃ req', foldBlocks C req (missing C req index hd) = .ok req' ∧
      (∀ h blk, h ≤ hd.height → index.get? h = some blk → (req'.blocks.get? (blk.id C)).isSome = true) ∧
      ∃ hd', req'.head = some hd' ∧ hd.height ≤ hd'.height := by
  have Bs := C10Walk.built C ss srv hwfs hfs index hd hidx hhd
  have Fs := hwfs.facts C
  have Fr := hwfr.facts C
  have Ir := C10Walk.stateInv C rs req hwfr hfr
  -- the arrivals up to height `n` (exclusive)
  have key : ∀ n, n ≤ hd.height + 1 → ∃ s,
      foldBlocks C req (missingTo C req index n) = .ok s ∧
      WFArrivals C (rs ++ missingTo C req index n) ∧
      (∀ a ∈ rs ++ missingTo C req index n, ∀ b ∈ ss, a.id C = b.id C → a = b) ∧
      (∀ j a, j < n → index.get? j = some a → a ∈ rs ++ missingTo C req index n) := by
    intro n
    induction n with
    | zero =>
      intro _
      refine ⟨req, rfl, ?_, ?_, ?_⟩
      · simpa [missingTo] using hwfr
      · simpa [missingTo] using hsame
      · intro j a hj; omega
    | succ n ih =>
      intro hn
      obtain ⟨s, hfold, hwf, hsm, hall⟩ := ih (by omega)
      obtain ⟨a, ha⟩ := Bs.chain.full n (by omega)
      have has : a ∈ ss := Bs.mem n a ha
      have hah : a.height = n := (Bs.chain.stored n a ha).2
      rw [missingTo_succ C req index n a ha]
      by_cases hc : req.blocks.contains (a.id C) = true
      · -- already stored by the requester: it is a block of its history
        simp only [hc, ↓reduceIte, List.append_nil]
        refine ⟨s, hfold, hwf, hsm, ?_⟩
        intro j x hj hx
        by_cases hjn : j = n
        · subst hjn
          rw [ha] at hx
          cases hx
          obtain ⟨y, hy⟩ := (Map.contains_eq_true_iff _ _).1 hc
          obtain ⟨hyr, hyid⟩ := Ir.storeInv _ y hy
          have : y = a := hsame y hyr a has hyid
          subst this
          exact List.mem_append_left _ hyr
        · exact hall j x (by omega) hx
      · simp only [hc]
        have hc' : req.blocks.contains (a.id C) = false := by simpa using hc
        have hfd : foldBlocks C .empty (rs ++ missingTo C req index n) = .ok s :=
          foldBlocks_append_ok C hfr hfold
        have Is := C10Walk.stateInv C _ s hwf hfd
        -- `a` is not stored by the current state either
        have hnew : s.blocks.contains (a.id C) = false := by
          cases hg : s.blocks.get? (a.id C) with
          | none => simp [Map.contains, hg]
          | some y =>
            exfalso
            obtain ⟨hyd, hyid⟩ := Is.storeInv _ y hg
            have : y = a := hsm y hyd a has hyid
            subst this
            rcases List.mem_append.1 hyd with hyr | hym
            · have := Ir.store y hyr
              simp [Map.contains, this] at hc'
            · obtain ⟨j, hj, hgj⟩ := mem_missingTo C hym
              have := (Bs.chain.stored j y hgj).2
              omega
        -- `a` is not at height 0: the first block is shared
        have hn0 : n ≠ 0 := by
          intro h0
          subst h0
          have h1 : rs.head? = some a := by rw [hgen, ← Bs.gen]; exact ha
          have har : a ∈ rs := List.mem_of_head? h1
          have := Ir.store a har
          simp [Map.contains, this] at hc'
        obtain ⟨k, hk⟩ : ∃ k, n = k + 1 := ⟨n - 1, by omega⟩
        subst hk
        obtain ⟨p, hp⟩ := Bs.chain.full k (by omega)
        have hps : p ∈ ss := Bs.mem k p hp
        have hph : p.height = k := (Bs.chain.stored k p hp).2
        have hprev : a.prev = p.id C := Bs.chain.link k p a hp ha
        have hpd := hall k p (by omega) hp
        obtain ⟨s', hadd, hwf', hfd', hsm'⟩ := extend_ok C hwf hfd hwfs hfs hsm has hps hpd hprev
          (by omega) hnew
        refine ⟨s', ?_, ?_, ?_, ?_⟩
        · exact foldBlocks_append_ok C hfold (foldBlocks_single C hadd)
        · rw [← List.append_assoc]; exact hwf'
        · rw [← List.append_assoc]; exact hsm'
        · intro j x hj hx
          rw [← List.append_assoc]
          by_cases hjn : j = k + 1
          · subst hjn
            rw [ha] at hx
            cases hx
            exact List.mem_append_right _ (List.mem_singleton.2 rfl)
          · exact List.mem_append_left _ (hall j x (by omega) hx)
  obtain ⟨req', hfold, hwf, -, hall⟩ := key (hd.height + 1) (Nat.le_refl _)
  rw [← missing_eq] at hfold hwf hall
  have hfd : foldBlocks C .empty (rs ++ missing C req index hd) = .ok req' :=
    foldBlocks_append_ok C hfr hfold
  have I' := C10Walk.stateInv C _ req' hwf hfd
  refine ⟨req', hfold, ?_, ?_⟩
  · intro h blk hh hg
    rw [I'.store blk (hall h blk (by omega) hg)]
    rfl
  · obtain ⟨m, -, hm, hge⟩ := built_head_ge C _ req' hwf hfd
    obtain ⟨a, ha⟩ := Bs.chain.full hd.height (Nat.le_refl _)
    have hah := (Bs.chain.stored _ a ha).2
    have := hge a (hall _ a (by omega) ha)
    exact ⟨m, hm, by omega⟩

theorem solicited_delivery_is_add (n : Node) (c : Nat) (r : Nat) (b : Block) (now : Int) (cs' : CoinState)
    (hr : r ≠ 0)
    (hnew : n.mgr.coinstate.blocks.contains (b.id C) = false)
    (hparent : n.mgr.coinstate.blocks.contains b.prev = true)
    (hvalid : validateBlockByItself C P b now = .ok ())
    (hskip : b.height % P.ibdValidationSkip ≠ 0)
    (hadd : addBlockNoValidation C n.mgr.coinstate b = .ok cs') :
    (handleBlockReceived C P n c r b now).2 = none ∧
    (handleBlockReceived C P n c r b now).1.mgr.coinstate = cs' ∧
    (handleBlockReceived C P n c r b now).1.wbuf = n.wbuf ++ [b] ∧
    (handleBlockReceived C P n c r b now).1.disk = n.disk := by
  obtain ⟨hd, hhd⟩ := add_ok_head_some C hadd
  unfold handleBlockReceived
  simp only [hnew, hparent, hvalid, hadd, hr, hskip, hhd, Node.updatePeer, setCoinstate]
  simp

/-! ## non-vacuity -/

/-- the hypotheses of `catch_up` are satisfiable and its conclusion is not trivial: requester `G`, server `G ← A ← A2` (the
blocks of `C10Walk`'s examples): the missing blocks are `A`, `A2`, and after them the requester's head is at height 2 -/
example : ∃ (req srv req' : CoinState) (index : Map Nat Block) (hd hd' : Block),
    WFArrivals C [C10Walk.exG] ∧ foldBlocks C .empty [C10Walk.exG] = .ok req ∧
    WFArrivals C [C10Walk.exG, C10Walk.exA, C10Walk.exA2] ∧
    foldBlocks C .empty [C10Walk.exG, C10Walk.exA, C10Walk.exA2] = .ok srv ∧
    srv.current.bind srv.byHeightAt.get? = some index ∧ srv.head = some hd ∧
    missing C req index hd = [C10Walk.exA, C10Walk.exA2] ∧
    foldBlocks C req (missing C req index hd) = .ok req' ∧ req'.head = some hd' ∧ hd'.height = 2 :=
  ⟨_, _, _, _, _, _, C10Walk.exWF_G C, rfl, C10Walk.exWF_GAA C, rfl, rfl, rfl, rfl, rfl, rfl, rfl⟩

end C10Sync

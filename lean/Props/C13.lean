import Model.Node
import Proofs.Validation

/-!
# C13 — the pending-transaction pool holds only valid, mutually compatible transactions
-/

namespace Model
namespace C13

variable (C : Crypto) (P : Params)

/-- each pending transaction is individually valid against the ledger state of the current head
and no two pending transactions spend the same output -/
def PoolInv (m : ChainMgr) : Prop :=
  (∀ t ∈ m.pool, validateTxByItself P t = .ok () ∧ validateTxAtHead C m.coinstate t = .ok ()) ∧
  (allRefs m.pool).Nodup

theorem allRefs_append (a b : List CTx) : allRefs (a ++ b) = allRefs a ++ allRefs b := by
  simp [allRefs]

theorem allRefs_filter_sublist (p : CTx → Bool) : ∀ (l : List CTx),
    (allRefs (l.filter p)).Sublist (allRefs l) := by
  intro l
  induction l with
  | nil => simp [allRefs]
  | cons t rest ih =>
    simp only [List.filter_cons]
    split
    · have e : ∀ x (y : List CTx), allRefs (x :: y) = (x.tx.inputs.map (·.ref)) ++ allRefs y := by
        intro x y; simp [allRefs]
      rw [e, e]
      exact List.Sublist.append (List.Sublist.refl _) ih
    · have e : allRefs (t :: rest) = (t.tx.inputs.map (·.ref)) ++ allRefs rest := by simp [allRefs]
      rw [e]
      exact List.Sublist.trans ih (List.sublist_append_right _ _)

/-- what `add_transaction_to_pool` returning "admitted" established -/
theorem admitted_only_if_valid_and_compatible (m m' : ChainMgr) (t : CTx)
    (h : addTxToPool C P m t = .ok (m', true)) :
    validateTxByItself P t = .ok () ∧ validateTxAtHead C m.coinstate t = .ok () ∧
    (allRefs (m.pool ++ [t])).Nodup ∧ m' = { m with pool := m.pool ++ [t] } := by
  unfold addTxToPool at h
  simp only at h
  split at h
  · rename_i hr
    simp only [Except.ok.injEq, Prod.mk.injEq, and_true] at h
    rw [bind_ok_iff] at hr
    obtain ⟨_, h1, hr⟩ := hr
    rw [bind_ok_iff] at hr
    obtain ⟨_, h2, hr⟩ := hr
    simp only [require_ok, decide_eq_true_eq] at hr
    exact ⟨h1, h2, hr, h.symm⟩
  · simp at h
  · cases h

/-- a transaction failing either condition is never admitted: the manager is unchanged -/
theorem not_admitted_leaves_pool (m m' : ChainMgr) (t : CTx)
    (h : addTxToPool C P m t = .ok (m', false)) : m' = m := by
  unfold addTxToPool at h
  simp only at h
  split at h
  · simp at h
  · simp only [Except.ok.injEq, Prod.mk.injEq, and_true] at h; exact h.symm
  · cases h

theorem invalid_or_conflicting_not_admitted (m : ChainMgr) (t : CTx)
    (hbad : validateTxByItself P t ≠ .ok () ∨ validateTxAtHead C m.coinstate t ≠ .ok () ∨
      ¬ (allRefs (m.pool ++ [t])).Nodup) :
    ∀ m', addTxToPool C P m t ≠ .ok (m', true) := by
  intro m' h
  obtain ⟨h1, h2, h3, _⟩ := admitted_only_if_valid_and_compatible C P m m' t h
  rcases hbad with hb | hb | hb
  · exact hb h1
  · exact hb h2
  · exact hb h3

theorem submit_preserves (m m' : ChainMgr) (t : CTx) (r : Bool) (hinv : PoolInv C P m)
    (h : addTxToPool C P m t = .ok (m', r)) : PoolInv C P m' := by
  cases r with
  | false => rw [not_admitted_leaves_pool C P m m' t h]; exact hinv
  | true =>
    obtain ⟨h1, h2, h3, he⟩ := admitted_only_if_valid_and_compatible C P m m' t h
    subst he
    refine ⟨?_, h3⟩
    intro x hx
    simp only [List.mem_append, List.mem_singleton] at hx
    rcases hx with hx | rfl
    · exact hinv.1 x hx
    · exact ⟨h1, h2⟩

/-- after any head change — extension or reorganisation — the pool is exactly the old pool
filtered by validity at the new head, in order: no-longer-valid transactions are evicted, those
still valid remain -/
theorem cleanup_is_filter (m : ChainMgr) (cs : CoinState) (v : Bool) (t : CTx) :
    t ∈ (setCoinstate C m cs v).pool ↔ (t ∈ m.pool ∧ validateTxAtHead C cs t = .ok ()) := by
  simp only [setCoinstate, cleanupPool, List.mem_filter]
  constructor
  · rintro ⟨h1, h2⟩
    refine ⟨h1, ?_⟩
    split at h2
    · rename_i u hu; cases u; exact hu
    · cases h2
  · rintro ⟨h1, h2⟩
    exact ⟨h1, by rw [h2]⟩

theorem cleanup_keeps_order (m : ChainMgr) (cs : CoinState) (v : Bool) :
    (setCoinstate C m cs v).pool.Sublist m.pool := by
  simp only [setCoinstate, cleanupPool]
  exact List.filter_sublist

theorem setState_preserves (m : ChainMgr) (cs : CoinState) (v : Bool)
    (hinv : (∀ t ∈ m.pool, validateTxByItself P t = .ok ()) ∧ (allRefs m.pool).Nodup) :
    PoolInv C P (setCoinstate C m cs v) := by
  refine ⟨?_, ?_⟩
  · intro t ht
    have h := (cleanup_is_filter C m cs v t).mp ht
    exact ⟨hinv.1 t h.1, by simpa [setCoinstate] using h.2⟩
  · simp only [setCoinstate, cleanupPool]
    exact List.Nodup.sublist (allRefs_filter_sublist _ _) hinv.2

/-- every interleaving of submissions and head changes, from any manager with an empty pool -/
inductive Reachable : ChainMgr → Prop where
  | init (cs : CoinState) (lv : Option CoinState) : Reachable ⟨cs, [], lv⟩
  | submit (m m' : ChainMgr) (t : CTx) (r : Bool) :
      Reachable m → addTxToPool C P m t = .ok (m', r) → Reachable m'
  | setState (m : ChainMgr) (cs : CoinState) (v : Bool) : Reachable m → Reachable (setCoinstate C m cs v)

theorem pool_inv_reachable (m : ChainMgr) (h : Reachable C P m) : PoolInv C P m := by
  induction h with
  | init cs lv => exact ⟨(by intro t ht; cases ht), (by simp [allRefs])⟩
  | submit m m' t r _ ha ih => exact submit_preserves C P m m' t r ih ha
  | setState m cs v _ ih =>
    exact setState_preserves C P m cs v ⟨fun t ht => (ih.1 t ht).1, ih.2⟩

/-- no two pending transactions spend the same output, spelled out -/
theorem no_shared_output (m : ChainMgr) (h : Reachable C P m) (t₁ t₂ : CTx) (i₁ i₂ : Input)
    (n₁ n₂ : Nat) (hn : n₁ < n₂) (h₁ : m.pool[n₁]? = some t₁) (h₂ : m.pool[n₂]? = some t₂)
    (hi₁ : i₁ ∈ t₁.tx.inputs) (hi₂ : i₂ ∈ t₂.tx.inputs) : i₁.ref ≠ i₂.ref := by
  have hnd := (pool_inv_reachable C P m h).2
  generalize m.pool = pool at *
  induction pool generalizing n₁ n₂ with
  | nil => simp at h₁
  | cons x rest ih =>
    have e : allRefs (x :: rest) = (x.tx.inputs.map (·.ref)) ++ allRefs rest := by simp [allRefs]
    rw [e, List.nodup_append] at hnd
    obtain ⟨_, hr, hdis⟩ := hnd
    cases n₁ with
    | zero =>
      simp only [List.getElem?_cons_zero, Option.some.injEq] at h₁
      subst h₁
      cases n₂ with
      | zero => omega
      | succ k =>
        simp only [List.getElem?_cons_succ] at h₂
        have hm : t₂ ∈ rest := List.mem_of_getElem? h₂
        apply hdis
        · exact List.mem_map_of_mem hi₁
        · simp only [allRefs, List.mem_flatMap, List.mem_map]
          exact ⟨t₂, hm, i₂, hi₂, rfl⟩
    | succ j =>
      cases n₂ with
      | zero => omega
      | succ k =>
        simp only [List.getElem?_cons_succ] at h₁ h₂
        exact ih j k (by omega) h₁ h₂ hr

end C13
end Model

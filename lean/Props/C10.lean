import Model.Node
import Proofs.Validation
import Props.C09
import Proofs.NodeLemmas
import Proofs.Sync

/-!
# C10 — synchronisation converges and relay terminates  *(partial)*

Proved here, for every chain state, locator, batch size and delivery sequence: the shape of the
locator, the shape of the inventory reply, and that a node relays a given block (and, while its
head does not change, a given transaction) at most once. Convergence under every interleaving
of deliveries and timer steps is a liveness statement that is validated by execution on the real
code (harness/c10.py), not proved.
-/

namespace Model
namespace C10

variable (C : Crypto) (P : Params)

/-! ## the locator: `h, h−1, …, h−9, h−16, h−25, …`, those that are ≥ 0, newest first -/

theorem locator_starts_at_head (h : Nat) : (recentHeights h).head? = some h := by
  exact recentHeights_head h

theorem locator_strictly_decreasing (h : Nat) : (recentHeights h).Pairwise (· > ·) := by
  exact recentHeights_pairwise h

theorem locator_dense_range (h k : Nat) (hk : k < 10) (hle : k ≤ h) : h - k ∈ recentHeights h := by
  exact mem_recentHeights h k (mem_oldness_dense k hk) hle

theorem locator_sparse_range (h x : Nat) (hx : 4 ≤ x) (hx' : x < 64) (hle : x ^ 2 ≤ h) :
    h - x ^ 2 ∈ recentHeights h := by
  exact mem_recentHeights h (x ^ 2) (mem_oldness_sparse x hx hx') hle

theorem locator_within_chain (h x : Nat) (hx : x ∈ recentHeights h) : x ≤ h := by
  exact recentHeights_le h x hx

/-! ## the inventory reply -/

/-- never more than one batch -/
theorem reply_at_most_one_batch (cs : CoinState) (loc : List Bytes) (ids : List Bytes)
    (h : inventoryReply C P cs loc = .ok ids) : ids.length ≤ P.inventorySize := by
  obtain ⟨index, hd, _, _, hcase⟩ := inventoryReply_ok C P cs loc ids h
  rcases hcase with ⟨_, rfl⟩ | ⟨start, _, hl, _⟩
  · exact Nat.zero_le _
  · omega

/-- the reply lists the ids of the blocks of the server's **active chain** at consecutive heights:
there are a start height and a by-height index of the head such that the k-th id is the id of the
block the index holds at height `start + k`, and it never goes beyond the head -/
theorem reply_is_consecutive_active_chain (cs : CoinState) (loc : List Bytes) (ids : List Bytes)
    (h : inventoryReply C P cs loc = .ok ids) :
    ∃ index hd start, cs.current.bind cs.byHeightAt.get? = some index ∧ cs.head = some hd ∧
      (ids ≠ [] → start + ids.length ≤ hd.height + 1) ∧
      ∀ k (hk : k < ids.length), ∃ blk, index.get? (start + k) = some blk ∧ ids[k] = blk.id C := by
  obtain ⟨index, hd, hidx, hhd, hcase⟩ := inventoryReply_ok C P cs loc ids h
  rcases hcase with ⟨_, rfl⟩ | ⟨start, _, hl, hk⟩
  · exact ⟨index, hd, 0, hidx, hhd, fun hne => absurd rfl hne, fun k hk => absurd hk (Nat.not_lt_zero k)⟩
  · refine ⟨index, hd, start, hidx, hhd, ?_, hk⟩
    intro hne
    have : ids.length ≠ 0 := fun h0 => hne (List.length_eq_zero_iff.mp h0)
    omega

/-- a locator none of whose entries the server knows is answered from height 1 (the block after
genesis) -/
theorem unknown_locator_answered_from_genesis (cs : CoinState) (loc : List Bytes) (ids : List Bytes)
    (hunk : ∀ x ∈ loc, cs.blocks.get? x = none) (h : inventoryReply C P cs loc = .ok ids) :
    ∃ index hd, cs.current.bind cs.byHeightAt.get? = some index ∧ cs.head = some hd ∧
      ids.length = min P.inventorySize hd.height ∧
      ∀ k (hk : k < ids.length), ∃ blk, index.get? (1 + k) = some blk ∧ ids[k] = blk.id C := by
  obtain ⟨index, hd, hidx, hhd, hcase⟩ := inventoryReply_ok C P cs loc ids h
  have hs := scan_unknown cs index loc hunk
  rcases hcase with ⟨hs' | hs', _⟩ | ⟨start, hs', hl, hk⟩
  · rw [hs] at hs'; cases hs'
  · rw [hs] at hs'; cases hs'
  · rw [hs] at hs'
    cases hs'
    refine ⟨index, hd, hidx, hhd, ?_, hk⟩
    omega

/-! ## relay terminates: at most one unsolicited relay per block -/

/-- number of unsolicited `Data(block)` messages for the block with id `x` in a queue -/
def relayCount (x : Bytes) (outbox : List Out) : Nat :=
  (outbox.filter fun o => match o with | .block b r => b.id C = x && r = 0 | _ => false).length

/-- in every sequence of unsolicited block deliveries to a node (valid, invalid, duplicates,
orphans, in any order, from any connections), starting from a state in which block `x` is not
yet known and has not been relayed, every peer's queue ends up with at most one unsolicited
`Data(block x)` — relay traffic for a block stops instead of echoing -/
theorem block_relayed_at_most_once (n : Node) (ds : List (Nat × Block × Int)) (hinv : C09.Inv C P n)
    (x : Bytes) (hunknown : n.mgr.coinstate.blocks.contains x = false)
    (hnone : ∀ p ∈ n.peers, relayCount C x p.outbox = 0) :
    ∀ p ∈ (C09.deliverAll C P n ds).peers, relayCount C x p.outbox ≤ 1 := by
  -- `hunknown` is not needed for the bound: `hnone` alone already gives the invariant's base case
  have _ := hunknown
  have hrc : ∀ o, relayCount C x o = relayCnt C x o := by
    intro o
    unfold relayCount relayCnt
    congr 2
  simp only [hrc] at hnone ⊢
  have key : ∀ (ds : List (Nat × Block × Int)) (n : Node), C09.Inv C P n →
      (∀ p ∈ n.peers, relayCnt C x p.outbox ≤ 1) →
      (n.mgr.coinstate.blocks.contains x = false → ∀ p ∈ n.peers, relayCnt C x p.outbox = 0) →
      ∀ p ∈ (C09.deliverAll C P n ds).peers, relayCnt C x p.outbox ≤ 1 := by
    intro ds
    induction ds with
    | nil => intro n _ h2 _; exact h2
    | cons d rest ih =>
      intro n hi h2 h3
      obtain ⟨c, b, now⟩ := d
      simp only [C09.deliverAll]
      obtain ⟨h2', h3'⟩ := hbr_relay_step C P n c b now hi.lastValid hi.wbufEmpty
        (C09.cleanup_same_state C P n.mgr hi.pool) x h2 h3
      exact ih _ (C09.inv_preserved C P n c b now hi) h2' h3'
  exact key ds n hinv (fun p hp => by rw [hnone p hp]; exact Nat.zero_le _) (fun _ => hnone)

/-- a transaction that is already pending is not relayed again (the second receipt of a
transaction has no effect at all) -/
theorem pending_transaction_not_relayed_again (n : Node) (t : CTx) (hin : t.tx ∈ n.mgr.pool.map (·.tx)) :
    handleTxReceived C P n t = (n, none) := by
  have hany : n.mgr.pool.any (fun x => x.tx = t.tx) = true := by
    rw [List.mem_map] at hin
    obtain ⟨y, hy, hyt⟩ := hin
    rw [List.any_eq_true]
    exact ⟨y, hy, by simpa using hyt⟩
  unfold handleTxReceived
  rw [if_pos hany]

/-- a transaction is relayed exactly when it is admitted to the pool, to every greeted peer once -/
theorem transaction_relayed_iff_admitted (n : Node) (t : CTx) (hnew : t.tx ∉ n.mgr.pool.map (·.tx)) :
    (∃ m, addTxToPool C P n.mgr t = .ok (m, true) ∧
      (handleTxReceived C P n t).1.peers.map (·.outbox.length) =
        n.peers.map (fun p => if p.active then p.outbox.length + 1 else p.outbox.length)) ∨
    ((∀ m, addTxToPool C P n.mgr t ≠ .ok (m, true)) ∧
      (handleTxReceived C P n t).1.peers = n.peers) := by
  have hany : ¬ n.mgr.pool.any (fun x => x.tx = t.tx) = true := by
    intro ha
    rw [List.any_eq_true] at ha
    obtain ⟨y, hy, hyt⟩ := ha
    exact hnew (List.mem_map.mpr ⟨y, hy, by simpa using hyt⟩)
  unfold handleTxReceived
  rw [if_neg hany]
  cases ha : addTxToPool C P n.mgr t with
  | error e =>
    right
    exact ⟨fun m hm => (by cases hm), rfl⟩
  | ok r =>
    obtain ⟨m, adm⟩ := r
    cases adm with
    | true =>
      left
      exact ⟨m, rfl, broadcast_outbox _ _⟩
    | false =>
      right
      exact ⟨fun m' hm => (by cases hm), rfl⟩

/-! ## non-vacuity -/

example : recentHeights 30 = [30, 29, 28, 27, 26, 25, 24, 23, 22, 21, 14, 5] := by decide

example : recentHeights 3 = [3, 2, 1, 0] := by decide

end C10
end Model

import Model.SendPath

/-!
# The write path (C09 "relayed to the node's peers", C10 "reaches every node", C12 "is broadcast")

Whatever a node queues for a peer reaches the peer's socket: for every history of `send_message` calls and write events, with a
socket that accepts any part of what it is offered,

* `conservation`: the bytes accepted so far, followed by what is still in flight and what is still queued, are exactly the
  frames queued so far, in order — nothing is lost, duplicated or reordered;
* `never_wedged`: the connection is registered for write events exactly when a frame is in flight, and nothing is queued behind
  an empty flight buffer — it never holds unsent bytes without waiting for the socket;
* `progress`: a write event on which the socket accepts at least one byte strictly decreases the number of unsent bytes;
* `all_delivered`: when no bytes are left unsent, the wire carries exactly the frames queued, in order;
* `drains`: `k` write events that each accept at least one byte leave at most `unsent − k` bytes unsent.

Frames are never empty (a frame starts with the four magic bytes).
-/

namespace Model
namespace SendPath

/-- frames in flight or queued are non-empty, writing is on exactly when something is in flight, nothing waits behind an empty
flight buffer -/
structure Inv (s : SendSt) : Prop where
  backlogNonempty : ∀ f ∈ s.backlog, f ≠ []
  writingIff : s.writing = true ↔ s.buffer ≠ []
  idle : s.buffer = [] → s.backlog = []

def unsent (s : SendSt) : Nat := s.buffer.length + (s.backlog.map List.length).sum

theorem inv_init : Inv SendSt.init := by
  refine ⟨?_, ?_, ?_⟩ <;> simp [SendSt.init]

/-- helper: what one `handle_can_send` does -/
theorem canSendAux_spec (acc : Nat → Nat) : ∀ (fuel i : Nat) (s : SendSt),
    s.backlog.length < fuel → (∀ f ∈ s.backlog, f ≠ []) →
    (∀ f ∈ (canSendAux acc fuel i s).backlog, f ≠ []) ∧
    ((canSendAux acc fuel i s).buffer ≠ [] → (canSendAux acc fuel i s).writing = s.writing) ∧
    ((canSendAux acc fuel i s).buffer = [] →
      (canSendAux acc fuel i s).writing = false ∧ (canSendAux acc fuel i s).backlog = []) ∧
    (canSendAux acc fuel i s).wire ++ (canSendAux acc fuel i s).buffer ++ (canSendAux acc fuel i s).backlog.flatten
      = s.wire ++ s.buffer ++ s.backlog.flatten ∧
    unsent (canSendAux acc fuel i s) ≤ unsent s ∧
    (1 ≤ acc i → s.buffer ≠ [] → unsent (canSendAux acc fuel i s) < unsent s) := by
  intro fuel
  induction fuel with
  | zero => intro i s h; omega
  | succ fuel ih =>
    intro i s hlen hne
    obtain ⟨buf, bl, w, wire⟩ := s
    simp only [canSendAux]
    by_cases hd : (buf.drop (min (acc i) buf.length)).isEmpty = true
    · simp only [hd, if_true]
      have hd' : buf.drop (min (acc i) buf.length) = [] := List.isEmpty_iff.mp hd
      have htk : buf.take (min (acc i) buf.length) = buf := by
        have := List.take_append_drop (min (acc i) buf.length) buf
        rw [hd', List.append_nil] at this; exact this
      cases bl with
      | nil =>
        simp only [hd', htk, unsent]
        refine ⟨hne, ?_, ?_, ?_, ?_, ?_⟩
        · intro h; exact absurd rfl h
        · intro _; exact ⟨trivial, trivial⟩
        · simp
        · simp
        · intro _ hb
          have : buf.length ≠ 0 := by
            intro h0; exact hb (List.length_eq_zero_iff.mp h0)
          simp; omega
      | cons f rest =>
        simp only
        have hlen' : rest.length < fuel := by simp at hlen; omega
        have hne' : ∀ g ∈ rest, g ≠ [] := fun g hg => hne g (List.mem_cons_of_mem _ hg)
        obtain ⟨h1, h2, h3, h4, h5, h6⟩ := ih (i+1) ⟨f, rest, w, wire ++ buf.take (min (acc i) buf.length)⟩ hlen' hne'
        refine ⟨h1, h2, h3, ?_, ?_, ?_⟩
        · rw [h4, htk]; simp
        · simp only [unsent] at h5 ⊢; simp at h5 ⊢; omega
        · intro _ hb
          have : buf.length ≠ 0 := by
            intro h0; exact hb (List.length_eq_zero_iff.mp h0)
          simp only [unsent] at h5 ⊢; simp at h5 ⊢; omega
    · simp only [hd]
      simp only [Bool.false_eq_true, if_false]
      have hd' : buf.drop (min (acc i) buf.length) ≠ [] := by
        intro h; apply hd; rw [h]; rfl
      refine ⟨hne, fun _ => trivial, fun h => absurd h hd', ?_, ?_, ?_⟩
      · simp only [List.append_assoc]
        rw [← List.append_assoc (buf.take _), List.take_append_drop]
      · simp only [unsent, List.length_drop]; omega
      · intro ha hb
        have : buf.length ≠ 0 := by
          intro h0; exact hb (List.length_eq_zero_iff.mp h0)
        simp only [unsent, List.length_drop]; omega

/-- helper: queueing a frame keeps the invariant and appends the frame to what is pending -/
theorem queue_spec (s : SendSt) (f : Bytes) (h : Inv s) :
    (f ≠ [] → Inv (s.queue f)) ∧
    (s.queue f).wire ++ (s.queue f).buffer ++ (s.queue f).backlog.flatten
      = s.wire ++ s.buffer ++ s.backlog.flatten ++ f := by
  obtain ⟨buf, bl, w, wire⟩ := s
  obtain ⟨h1, h2, h3⟩ := h
  simp only at h1 h2 h3
  by_cases hb : buf = []
  · subst hb
    have := h3 rfl
    subst this
    simp only [SendSt.queue, List.isEmpty_nil, if_true, List.nil_append]
    refine ⟨fun hf => ⟨?_, ?_, ?_⟩, ?_⟩ <;> simp
    exact hf
  · have hb' : buf.isEmpty = false := by
      cases buf with
      | nil => exact absurd rfl hb
      | cons a t => rfl
    simp only [SendSt.queue, hb', Bool.false_eq_true, if_false]
    refine ⟨fun hf => ⟨?_, h2, ?_⟩, ?_⟩
    · intro g hg
      simp only [List.mem_append, List.mem_singleton] at hg
      rcases hg with hg | hg
      · exact h1 g hg
      · rw [hg]; exact hf
    · intro h; exact absurd h hb
    · simp

/-- helper: a write event (while registered for writing) keeps the invariant and what is pending -/
theorem canSend_spec (s : SendSt) (acc : Nat → Nat) (h : Inv s) (hw : s.writing = true) :
    Inv (s.canSend acc) ∧
    (s.canSend acc).wire ++ (s.canSend acc).buffer ++ (s.canSend acc).backlog.flatten
      = s.wire ++ s.buffer ++ s.backlog.flatten := by
  obtain ⟨h1, h2, h3, h4, _, _⟩ :=
    canSendAux_spec acc (s.backlog.length + 1) 0 s (Nat.lt_succ_self _) h.backlogNonempty
  refine ⟨⟨h1, ?_, fun hb => (h3 hb).2⟩, h4⟩
  by_cases hb : (s.canSend acc).buffer = []
  · have := (h3 hb).1
    simp only [SendSt.canSend] at hb ⊢
    rw [this, hb]; simp
  · constructor
    · intro _; exact hb
    · intro _
      have := h2 hb
      simp only [SendSt.canSend] at this ⊢
      rw [this]; exact hw

/-- helper: one event keeps the invariant and adds the frame it queues (if any) to what is pending -/
theorem step_spec (s : SendSt) (ev : SendEv) (h : Inv s) (hf : ∀ f, ev = .queue f → f ≠ []) :
    Inv (s.step ev) ∧
    (s.step ev).wire ++ (s.step ev).buffer ++ (s.step ev).backlog.flatten
      = s.wire ++ s.buffer ++ s.backlog.flatten ++ (queuedBy [ev]).flatten := by
  cases ev with
  | queue f =>
    have := queue_spec s f h
    simp only [SendSt.step, queuedBy, List.flatten_cons, List.flatten_nil, List.append_nil]
    exact ⟨this.1 (hf f rfl), this.2⟩
  | writable acc =>
    simp only [SendSt.step, queuedBy, List.flatten_nil, List.append_nil]
    by_cases hw : s.writing = true
    · simp only [hw, if_true]
      exact canSend_spec s acc h hw
    · simp only [hw]
      exact ⟨h, rfl⟩

theorem inv_step (s : SendSt) (ev : SendEv) (h : Inv s) (hf : ∀ f, ev = .queue f → f ≠ []) : Inv (s.step ev) :=
  (step_spec s ev h hf).1

/-- helper: the frames queued by a history that starts with `ev` -/
theorem queuedBy_cons (ev : SendEv) (evs : List SendEv) : queuedBy (ev :: evs) = queuedBy [ev] ++ queuedBy evs := by
  cases ev <;> simp [queuedBy]

/-- helper: a history from any state satisfying the invariant keeps it and adds the frames it queues to what is pending -/
theorem run_spec : ∀ (evs : List SendEv) (s : SendSt), Inv s → (∀ f ∈ queuedBy evs, f ≠ []) →
    Inv (s.run evs) ∧
    (s.run evs).wire ++ (s.run evs).buffer ++ (s.run evs).backlog.flatten
      = s.wire ++ s.buffer ++ s.backlog.flatten ++ (queuedBy evs).flatten := by
  intro evs
  induction evs with
  | nil => intro s h _; simp [SendSt.run, queuedBy]; exact h
  | cons ev evs ih =>
    intro s h hf
    have hf1 : ∀ f, ev = .queue f → f ≠ [] := by
      intro f he; apply hf; rw [he]; simp [queuedBy]
    have hf2 : ∀ f ∈ queuedBy evs, f ≠ [] := by
      intro f hm; apply hf; rw [queuedBy_cons]; exact List.mem_append_right _ hm
    obtain ⟨i1, c1⟩ := step_spec s ev h hf1
    obtain ⟨i2, c2⟩ := ih (s.step ev) i1 hf2
    have hr : s.run (ev :: evs) = (s.step ev).run evs := rfl
    rw [hr]
    refine ⟨i2, ?_⟩
    rw [c2, c1, queuedBy_cons ev evs, List.flatten_append]
    simp only [List.append_assoc]

/-- after every history: never wedged -/
theorem never_wedged (evs : List SendEv) (hf : ∀ f ∈ queuedBy evs, f ≠ []) : Inv (SendSt.init.run evs) :=
  (run_spec evs SendSt.init inv_init hf).1

/-- after every history: nothing lost, duplicated or reordered -/
theorem conservation (evs : List SendEv) (hf : ∀ f ∈ queuedBy evs, f ≠ []) :
    (SendSt.init.run evs).wire ++ (SendSt.init.run evs).buffer ++ (SendSt.init.run evs).backlog.flatten
      = (queuedBy evs).flatten := by
  rw [(run_spec evs SendSt.init inv_init hf).2]
  simp [SendSt.init]

/-- a write event on which the first `send` accepts at least one byte makes progress -/
theorem progress (s : SendSt) (acc : Nat → Nat) (h : Inv s) (hw : s.writing = true) (ha : 1 ≤ acc 0) :
    unsent (s.step (.writable acc)) < unsent s := by
  simp only [SendSt.step, hw, if_true, SendSt.canSend]
  exact (canSendAux_spec acc (s.backlog.length + 1) 0 s (Nat.lt_succ_self _) h.backlogNonempty).2.2.2.2.2 ha
    (h.writingIff.mp hw)

/-- when nothing is left unsent, the peer has been sent exactly the frames queued, in order -/
theorem all_delivered (evs : List SendEv) (hf : ∀ f ∈ queuedBy evs, f ≠ [])
    (hu : unsent (SendSt.init.run evs) = 0) : (SendSt.init.run evs).wire = (queuedBy evs).flatten := by
  have hc := conservation evs hf
  have hi := never_wedged evs hf
  have hb : (SendSt.init.run evs).buffer = [] := by
    simp only [unsent] at hu
    exact List.length_eq_zero_iff.mp (by omega)
  rw [hb, hi.idle hb] at hc
  simpa using hc

/-- helper: with nothing in flight nothing is unsent -/
theorem unsent_zero_of_not_writing (s : SendSt) (h : Inv s) (hw : s.writing = false) : unsent s = 0 := by
  have hb : s.buffer = [] := by
    by_cases hb : s.buffer = []
    · exact hb
    · have := h.writingIff.mpr hb
      rw [hw] at this
      cases this
  have hq := h.idle hb
  simp [unsent, hb, hq]

/-- helper: `drains` over the fold -/
theorem drains_fold (accs : List (Nat → Nat)) (ha : ∀ acc ∈ accs, 1 ≤ acc 0) :
    ∀ (s : SendSt), Inv s → unsent (List.foldl SendSt.step s (accs.map SendEv.writable)) ≤ unsent s - accs.length := by
  induction accs with
  | nil => intro s _; simp
  | cons acc rest ih =>
    intro s h
    have hstep : Inv (s.step (.writable acc)) := inv_step s (.writable acc) h (by intro f hf; cases hf)
    have hrest := ih (fun a ha' => ha a (List.mem_cons_of_mem _ ha')) (s.step (.writable acc)) hstep
    simp only [List.map_cons, List.foldl_cons, List.length_cons]
    cases hw : s.writing
    · have h0 := unsent_zero_of_not_writing s h hw
      have hs : s.step (.writable acc) = s := by simp [SendSt.step, hw]
      rw [hs] at hrest ⊢
      omega
    · have hp := progress s acc h hw (ha acc (List.mem_cons_self ..))
      omega

/-- **everything queued is delivered**: after `k` write events on each of which the socket accepts at least one byte, at most
`unsent s - k` bytes are unsent — after `unsent s` such events, none -/
theorem drains (accs : List (Nat → Nat)) (ha : ∀ acc ∈ accs, 1 ≤ acc 0) (s : SendSt) (h : Inv s) :
    unsent (s.run (accs.map SendEv.writable)) ≤ unsent s - accs.length :=
  drains_fold accs ha s h

/-! ### non-vacuity: two frames queued while the socket accepts two bytes per call, then drained -/

example :
    let evs := [SendEv.queue [1, 2, 3], .writable (fun _ => 2), .queue [4, 5], .writable (fun _ => 2), .writable (fun _ => 2)]
    (SendSt.init.run evs).wire = [1, 2, 3, 4, 5] ∧ (SendSt.init.run evs).writing = false ∧ unsent (SendSt.init.run evs) = 0 := by
  decide

/-- the intermediate state: one byte of the first frame still in flight, the second frame queued behind it, writing on -/
example :
    let evs := [SendEv.queue [1, 2, 3], .writable (fun _ => 2), .queue [4, 5]]
    (SendSt.init.run evs).buffer = [3] ∧ (SendSt.init.run evs).backlog = [[4, 5]] ∧ (SendSt.init.run evs).writing = true := by
  decide

end SendPath
end Model

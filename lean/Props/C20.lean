import Model.Node
import Proofs.Validation
import Props.C09
import Proofs.Contain

/-!
# C20 — malformed input from a peer is contained to that connection

`handleEvent C P n c ev now` is `LocalPeer.handle_remote_peer_selector_event` for something read
on connection `c`, with its catch-all: the result is always a node (no exception escapes, the
event loop goes on). Per message: valid messages earlier in a stream have their legitimate
effects; the claim is about each message whose handling raises or that is rejected.
-/

namespace Model
namespace C20

variable (C : Crypto) (P : Params)

/-- chain state, last validated state, pending pool, write buffer and store are unchanged, every
other connection is exactly as it was (flags, queue), and connection `c` is at most closed -/
def Contained (n n' : Node) (c : Nat) : Prop :=
  n'.mgr.coinstate = n.mgr.coinstate ∧ n'.mgr.pool = n.mgr.pool ∧ n'.mgr.lastValid = n.mgr.lastValid ∧
  n'.wbuf = n.wbuf ∧ n'.disk = n.disk ∧ n'.peers.length = n.peers.length ∧
  ∀ j, j ≠ c → n'.peers[j]? = n.peers[j]?

/-- broken framing, an undecodable payload, a remote close -/
theorem garbage_contained (n : Node) (c : Nat) (now : Int) (ev : Incoming)
    (hev : match ev with | .msg _ _ _ => False | _ => True) :
    Contained n (handleEvent C P n c ev now) c := by
  exact handleEvent_garbage_contained C P n c now ev hev

/-- a message whose handling raises — unknown data types, out of protocol order, oversized
inventories, an error while applying a block, … — whatever the handler did before raising -/
theorem raising_message_contained (n : Node) (c : Nat) (i r : Nat) (m : InMsg) (now : Int) (e : Err)
    (hinv : C09.Inv C P n) (hr : r = 0 ∨ ∀ b, m ≠ .dataBlock b)
    (herr : (handleMessage C P n c i r m now).2 = some e) :
    Contained n (handleEvent C P n c (.msg i r m) now) c := by
  have _ := hinv; have _ := hr -- not needed: an escaping exception never follows a state change
  exact handleEvent_msg_contained C P n c i r m now (handleMessage_err_contained C P n c i r m now e herr)

/-- a structurally invalid or rule-violating block delivered outside bulk download is rejected
without raising and equally contained -/
theorem rejected_block_contained (n : Node) (c : Nat) (i : Nat) (b : Block) (now : Int)
    (hinv : C09.Inv C P n) (hp : ∃ p, n.peers[c]? = some p ∧ p.helloReceived = true)
    (hrej : ∀ cs', addBlock C P n.mgr.coinstate b now ≠ .ok cs') :
    Contained n (handleEvent C P n c (.msg i 0 (.dataBlock b)) now) c := by
  have _ := hp -- not needed: before the greeting the message raises, which is contained as well
  exact handleEvent_msg_contained C P n c i 0 _ now
    (handleMessage_rejected_block_contained C P n c i b now hinv.lastValid hinv.wbufEmpty hinv.pool hrej)

/-- an invalid or conflicting transaction is not admitted and nothing else changes -/
theorem rejected_transaction_contained (n : Node) (c : Nat) (i r : Nat) (t : CTx) (now : Int)
    (hrej : ∀ m', addTxToPool C P n.mgr t ≠ .ok (m', true)) :
    Contained n (handleEvent C P n c (.msg i r (.dataTx t)) now) c := by
  exact handleEvent_msg_contained C P n c i r _ now (handleMessage_rejected_tx_contained C P n c i r t now hrej)

/-- messages that only concern the connection they arrive on (greeting, block and peer
queries, inventories) never touch chain state, pool or store, nor any other connection -/
theorem protocol_messages_local (n : Node) (c : Nat) (i r : Nat) (m : InMsg) (now : Int)
    (hm : match m with | .dataBlock _ => False | .dataTx _ => False | _ => True) :
    Contained n (handleEvent C P n c (.msg i r m) now) c := by
  exact handleEvent_msg_contained C P n c i r m now (handleMessage_protocol_contained C P n c i r m now hm)

/-! ### non-vacuity -/

/-- a greeted peer on both connections of a node with an empty chain state -/
private def exPeer : PeerSt := ⟨true, false, true, true, [], false, []⟩
private def exNode : Node := ⟨⟨CoinState.empty, [], some CoinState.empty⟩, [], [], [exPeer, exPeer], 7⟩

/-- garbage on connection 0: that connection is closed, connection 1 is exactly as it was -/
example :
    Contained exNode (handleEvent C P exNode 0 .undecodable 0) 0 ∧
    (handleEvent C P exNode 0 .undecodable 0).peers[1]? = some exPeer ∧
    (handleEvent C P exNode 0 .undecodable 0).peers[0]? = some { exPeer with open_ := false } :=
  ⟨garbage_contained C P exNode 0 0 .undecodable trivial, rfl, rfl⟩

/-- the hypotheses of `raising_message_contained` are satisfiable: `Data(header)` raises -/
example : Contained exNode (handleEvent C P exNode 0 (.msg 1 0 .dataHeader) 0) 0 ∧
    (handleEvent C P exNode 0 (.msg 1 0 .dataHeader) 0).peers[0]? = some { exPeer with open_ := false } :=
  ⟨raising_message_contained C P exNode 0 1 0 .dataHeader 0 (.other "NotImplementedError")
    ⟨rfl, rfl, ⟨fun _ ht => (nomatch ht), List.nodup_nil⟩⟩ (.inl rfl) rfl, rfl⟩

end C20
end Model

import Model.Params
import Gen.Params
import Props.GenTie.Params

/-!
# C16 — the monetary schedule matches the documented parameters

All statements are about `Model.subsidy Gen.params`, i.e. about the constants regenerated from
/repo on this run; `GenTie.get_block_subsidy_eq` identifies it with the code's
`get_block_subsidy` as translated on this run, and `Props/C16Code.lean` restates the theorems for
`Gen.get_block_subsidy` / `Gen.validate_sashimi_range`.
-/

namespace Model
namespace C16

abbrev P : Params := Gen.params

theorem hI : P.halvingInterval = 1050000 := by decide
theorem hS : P.initialSubsidy = 1000000000 := by decide

/-- the subsidy is 10 coin halved by integer division every 1,050,000 blocks -/
theorem subsidy_formula (h : Nat) : subsidy P h = 10 * 100000000 / 2 ^ (h / 1050000) := by
  unfold subsidy
  rw [hI, hS]
  simp only
  split
  · rename_i hk
    symm
    apply Nat.div_eq_of_lt
    have : 2 ^ 64 ≤ 2 ^ (h / 1050000) := Nat.pow_le_pow_right (by omega) hk
    omega
  · rfl

theorem subsidy_first_era (h : Nat) (hh : h < 1050000) : subsidy P h = 10 * 100000000 := by
  rw [subsidy_formula, Nat.div_eq_of_lt hh]

theorem subsidy_halves (h : Nat) : subsidy P (h + 1050000) = subsidy P h / 2 := by
  rw [subsidy_formula, subsidy_formula]
  have : (h + 1050000) / 1050000 = h / 1050000 + 1 := by omega
  rw [this, Nat.pow_succ, Nat.div_div_eq_div_mul]

/-- never increases with height -/
theorem subsidy_antitone (h h' : Nat) (hle : h ≤ h') : subsidy P h' ≤ subsidy P h := by
  rw [subsidy_formula, subsidy_formula]
  apply Nat.div_le_div_left
  · exact Nat.pow_le_pow_right (by omega) (Nat.div_le_div_right hle)
  · exact Nat.pow_pos (by omega)

/-- zero from the point where halving exhausts it … -/
theorem subsidy_zero (h : Nat) (hh : 31500000 ≤ h) : subsidy P h = 0 := by
  rw [subsidy_formula]
  apply Nat.div_eq_of_lt
  have hk : 30 ≤ h / 1050000 := by omega
  have : 2 ^ 30 ≤ 2 ^ (h / 1050000) := Nat.pow_le_pow_right (by omega) hk
  omega

/-- … and positive before it -/
theorem subsidy_pos (h : Nat) (hh : h < 31500000) : 0 < subsidy P h := by
  rw [subsidy_formula]
  apply Nat.div_pos
  · have hk : h / 1050000 ≤ 29 := by omega
    have : 2 ^ (h / 1050000) ≤ 2 ^ 29 := Nat.pow_le_pow_right (by omega) hk
    omega
  · exact Nat.pow_pos (by omega)

/-- cumulative issuance: the sum of the subsidy over heights `0 … n-1` -/
def supply : Nat → Nat
  | 0 => 0
  | n + 1 => supply n + subsidy P n

theorem supply_add_const (a c : Nat) : ∀ m, (∀ j, j < m → subsidy P (a + j) = c) →
    supply (a + m) = supply a + m * c := by
  intro m
  induction m with
  | zero => intro _; simp
  | succ m ih =>
    intro h
    have e : a + (m + 1) = (a + m) + 1 := by omega
    rw [e, supply, ih (fun j hj => h j (by omega)), h m (by omega), Nat.succ_mul]
    omega

def eraTotal : Nat → Nat
  | 0 => 0
  | k + 1 => eraTotal k + 1050000 * (10 * 100000000 / 2 ^ k)

/-- the issuance of era `k` is 1,050,000 blocks at the era's constant subsidy -/
theorem era_sum (k : Nat) :
    supply ((k + 1) * 1050000) = supply (k * 1050000) + 1050000 * (10 * 100000000 / 2 ^ k) := by
  have e : (k + 1) * 1050000 = k * 1050000 + 1050000 := by omega
  rw [e]
  apply supply_add_const
  intro j hj
  rw [subsidy_formula]
  have : (k * 1050000 + j) / 1050000 = k := by omega
  rw [this]

theorem supply_eras (k : Nat) : supply (k * 1050000) = eraTotal k := by
  induction k with
  | zero => simp [supply, eraTotal]
  | succ k ih => rw [era_sum, ih, eraTotal]

/-- summed over all heights the subsidy is exactly 2,099,999,986,350,000 sashimi
(20,999,999.8635 coin), for every horizon at or beyond the exhaustion point -/
theorem total_supply (n : Nat) (hn : 31500000 ≤ n) : supply n = 2099999986350000 := by
  have e : n = 30 * 1050000 + (n - 31500000) := by omega
  rw [e, supply_add_const (30 * 1050000) 0 (n - 31500000)
    (fun j _ => subsidy_zero _ (by omega)), supply_eras, Nat.mul_zero, Nat.add_zero]
  decide

/-- the cumulative issuance never exceeds the maximum at any height -/
theorem supply_le_max (n : Nat) : supply n ≤ 2099999986350000 := by
  by_cases h : 31500000 ≤ n
  · rw [total_supply n h]; exact Nat.le_refl _
  · have mono : ∀ a b, a ≤ b → supply a ≤ supply b := by
      intro a b hab
      induction b with
      | zero => have : a = 0 := by omega
                subst this; exact Nat.le_refl _
      | succ b ih =>
        by_cases hb : a = b + 1
        · subst hb; exact Nat.le_refl _
        · have := ih (by omega); rw [supply]; omega
    have := mono n 31500000 (by omega)
    rw [total_supply 31500000 (Nat.le_refl _)] at this
    exact this

/-- that number is the upper limit the validator places on any amount -/
theorem limit_is_supply : P.maxSashimi = supply 31500000 := by
  rw [total_supply 31500000 (Nat.le_refl _)]; decide

theorem validator_limit (v : Nat) :
    sashimiInRange P v = decide (0 < v ∧ v ≤ supply 31500000) := by
  rw [← limit_is_supply]; rfl

/-! ## non-vacuity / spot values -/

example : subsidy P 0 = 1000000000 ∧ subsidy P 1049999 = 1000000000 ∧ subsidy P 1050000 = 500000000
    ∧ subsidy P 31499999 = 1 ∧ subsidy P 31500000 = 0 := by
  refine ⟨?_, ?_, ?_, ?_, ?_⟩ <;> rw [subsidy_formula] <;> decide

end C16
end Model

import Model.Spec
import Proofs.Validation
import Proofs.Types
import Props.C07

/-!
# C06 — tamper evidence: every bit of a block is committed to

Cryptographic facts are explicit disjuncts (`Collision …`); nothing is assumed of the hash
functions. `…_partial`: see the note on `flip_outside_evidence_rejected`.
-/

namespace Model
namespace C06
open Codec

variable (C : Crypto) (P : Params)

/-- a truncated encoding of a block cannot be decoded -/
theorem truncation_undecodable (b : Block) (hw : b.content.WF) (n : Nat) (hn : n < (encBlock b).length) :
    decBlock C.sha256d ((encBlock b).take n) = none := by
  cases hd : decBlock C.sha256d ((encBlock b).take n) with
  | none => rfl
  | some x =>
    obtain ⟨b', r'⟩ := x
    exfalso
    obtain ⟨e, w, _, _⟩ := C07.decBlock_id C _ _ _ hd
    have h1 : BlockC.codec.dec ((encBlock b).take n) = none :=
      prefix_undecodable BlockC.rt BlockC.canon b.content hw n hn
    have h2 := BlockC.rt b'.content r' w
    have e2 : (encBlock b).take n = BlockC.codec.enc b'.content ++ r' := e
    rw [← e2, h1] at h2
    cases h2

/-- the same for a transaction -/
theorem tx_truncation_undecodable (t : Tx) (hw : t.WF) (n : Nat) (hn : n < (encTx t).length) :
    Tx.codec.dec ((encTx t).take n) = none :=
  prefix_undecodable Tx.rt Tx.canon t hw n hn

/-- an alteration confined to the evidence field (same summary, same transactions, different
evidence) is rejected: the evidence must equal the recomputed evidence — no assumption needed -/
theorem evidence_flip_rejected (cs cs' cs'' : CoinState) (b b' : Block) (now now' : Int)
    (hz : P.maxKnownHeight < b.height)
    (hs : b'.header.summary = b.header.summary) (ht : b'.txs = b.txs)
    (ha : addBlock C P cs b now = .ok cs') (ha' : addBlock C P cs b' now' = .ok cs'') :
    b'.header.evidence = b.header.evidence := by
  obtain ⟨_, h2, _⟩ := addBlock_ok C P cs cs' b now ha
  obtain ⟨_, h2', _⟩ := addBlock_ok C P cs cs'' b' now' ha'
  have hz' : P.maxKnownHeight < b'.height := by
    show P.maxKnownHeight < (b'.header.summary.height : Int)
    rw [hs]; exact hz
  have e := (validateBlockInState_ok C P cs b (by omega) h2).evidence
  have e' := (validateBlockInState_ok C P cs b' (by omega) h2').evidence
  have hh : b'.height = b.height := by show b'.header.summary.height = b.header.summary.height; rw [hs]
  rw [hs, ht, hh, e] at e'
  exact (Except.ok.inj e').symm

/-- a byte string that is a prefix of two equal concatenations with equal first parts -/
theorem append_cancel_left {a b c d : Bytes} (h : a ++ b = c ++ d) (hl : a = c) : b = d := by
  subst hl; exact List.append_cancel_left h

/-- the evidence commits to the whole block: two blocks accepted by full validation against the
same chain state with the same evidence have the same encoding — or a collision of BLAKE2b or
of scrypt is exhibited -/
theorem commit (cs cs' cs'' : CoinState) (b b' : Block) (now now' : Int)
    (hz : P.maxKnownHeight < b.height) (hz' : P.maxKnownHeight < b'.height)
    (hw : b.content.WF) (hw' : b'.content.WF)
    (ha : addBlock C P cs b now = .ok cs') (ha' : addBlock C P cs b' now' = .ok cs'')
    (he : b.header.evidence = b'.header.evidence) :
    encBlock b = encBlock b' ∨ Collision C.blake2 ∨ Collision (Function.uncurry C.scrypt) := by
  obtain ⟨_, h2, _⟩ := addBlock_ok C P cs cs' b now ha
  obtain ⟨_, h2', _⟩ := addBlock_ok C P cs cs'' b' now' ha'
  have e := (validateBlockInState_ok C P cs b (by omega) h2).evidence
  have e' := (validateBlockInState_ok C P cs b' (by omega) h2').evidence
  -- unfold the construction of the evidence on both sides
  have inv : ∀ (bb : Block), constructEvidence C P cs bb.header.summary bb.height bb.txs = .ok bb.header.evidence →
      ∃ sample, (⟨summaryHash C bb.header.summary bb.height, sample,
        C.blake2 (summaryHash C bb.header.summary bb.height ++ sample ++ encTxList bb.txs)⟩ : Evidence)
        = bb.header.evidence := by
    intro bb hb
    simp only [constructEvidence, evidenceAfterScrypt] at hb
    split at hb
    · cases hb
    · rename_i sample _
      exact ⟨sample, Except.ok.inj hb⟩
  obtain ⟨sample, e⟩ := inv b e
  obtain ⟨sample', e'⟩ := inv b' e'
  have hsh : summaryHash C b.header.summary b.height = summaryHash C b'.header.summary b'.height := by
    have := congrArg Evidence.summaryHash e
    have := congrArg Evidence.summaryHash e'
    simp_all
  have hsample : sample = sample' := by
    have a := congrArg Evidence.chainSample e
    have a' := congrArg Evidence.chainSample e'
    simp only at a a'
    rw [a, a', he]
  have hbh : C.blake2 (summaryHash C b.header.summary b.height ++ sample ++ encTxList b.txs)
      = C.blake2 (summaryHash C b'.header.summary b'.height ++ sample' ++ encTxList b'.txs) := by
    have a := congrArg Evidence.blockHash e
    have a' := congrArg Evidence.blockHash e'
    simp only at a a'
    rw [a, a', he]
  by_cases hin : summaryHash C b.header.summary b.height ++ sample ++ encTxList b.txs
      = summaryHash C b'.header.summary b'.height ++ sample' ++ encTxList b'.txs
  · -- equal inputs to BLAKE2b: the transaction lists have equal encodings
    rw [hsh, hsample] at hin
    have htx : encTxList b.txs = encTxList b'.txs := List.append_cancel_left hin
    -- equal scrypt outputs: equal summaries or a collision
    by_cases hsc : (encSummary b.header.summary, natToBytes 8 b.height)
        = (encSummary b'.header.summary, natToBytes 8 b'.height)
    · left
      have hsum : b.header.summary = b'.header.summary :=
        enc_injective Summary.rt _ _ hw.1.1 hw'.1.1 (by simpa [encSummary] using (Prod.ext_iff.mp hsc).1)
      have hhdr : b.header = b'.header := by
        cases hb : b.header; cases hb' : b'.header
        simp_all
      have htxs : b.txs.map (·.tx) = b'.txs.map (·.tx) := by
        have wfl : ∀ bb : Block, bb.content.WF → ∀ t ∈ bb.txs.map (·.tx), t.WF := fun bb h => h.2
        exact enc_injective (list_rt Tx.rt) _ _ (wfl b hw) (wfl b' hw') (by simpa [encTxList] using htx)
      simp only [encBlock, Block.content, hhdr, htxs]
    · right; right
      exact ⟨_, _, hsc, by simpa [summaryHash, Function.uncurry] using hsh⟩
  · right; left
    exact ⟨_, _, hin, hbh⟩

/-- the same id never stands for different content among acceptable blocks: two blocks obtained
from bytes (their ids are the hashes of their headers, C07) and accepted against the same
state, with the same id, have the same encoding — or a collision is exhibited -/
theorem same_id_same_content (cs cs' cs'' : CoinState) (b b' : Block) (now now' : Int)
    (hz : P.maxKnownHeight < b.height) (hz' : P.maxKnownHeight < b'.height)
    (hw : b.content.WF) (hw' : b'.content.WF)
    (hid : b.id C = C.sha256d (encHeader b.header)) (hid' : b'.id C = C.sha256d (encHeader b'.header))
    (ha : addBlock C P cs b now = .ok cs') (ha' : addBlock C P cs b' now' = .ok cs'')
    (he : b.id C = b'.id C) :
    encBlock b = encBlock b' ∨ Collision C.sha256d ∨ Collision C.blake2 ∨
      Collision (Function.uncurry C.scrypt) := by
  rw [hid, hid'] at he
  by_cases hh : encHeader b.header = encHeader b'.header
  · have hhdr : b.header = b'.header := enc_injective Header.rt _ _ hw.1 hw'.1 (by simpa [encHeader] using hh)
    rcases commit C P cs cs' cs'' b b' now now' hz hz' hw hw' ha ha' (by rw [hhdr]) with h | h | h
    · exact Or.inl h
    · exact Or.inr (Or.inr (Or.inl h))
    · exact Or.inr (Or.inr (Or.inr h))
  · exact Or.inr (Or.inl ⟨_, _, hh, he⟩)

/-- an alteration that still decodes and leaves the decoded evidence field as it was yields a
rejected block, or a collision is exhibited.

`_partial`: this covers every bit outside the evidence field *except* flips of a continuation
bit of the VLQ height (1–4 bits per block), which re-align all later fields so that the decoded
evidence is no longer the original's; collision-resistance alone does not exclude that case (a
random-oracle argument would). Those bits are covered by execution only (the harness flips every
bit of every generated block). -/
theorem flip_outside_evidence_rejected_partial (cs cs' : CoinState) (b b' : Block) (now now' : Int)
    (hz : P.maxKnownHeight < b.height) (hz' : P.maxKnownHeight < b'.height)
    (hw : b.content.WF) (hw' : b'.content.WF)
    (ha : addBlock C P cs b now = .ok cs')
    (hev : b'.header.evidence = b.header.evidence) (hne : encBlock b' ≠ encBlock b) :
    (∀ cs'', addBlock C P cs b' now' ≠ .ok cs'') ∨ Collision C.blake2 ∨
      Collision (Function.uncurry C.scrypt) := by
  by_cases hacc : ∃ cs'', addBlock C P cs b' now' = .ok cs''
  · obtain ⟨cs'', ha'⟩ := hacc
    rcases commit C P cs cs' cs'' b b' now now' hz hz' hw hw' ha ha' hev.symm with h | h | h
    · exact absurd h.symm hne
    · exact Or.inr (Or.inl h)
    · exact Or.inr (Or.inr h)
  · left
    intro cs'' h
    exact hacc ⟨cs'', h⟩

end C06
end Model

import Props.C16
import Props.GenTie.Subsidy

/-!
# C16, for the code's functions as translated from /repo on this run
-/

namespace Model
namespace C16

theorem code_subsidy_formula (h : Nat) :
    Gen.get_block_subsidy h = 10 * 100000000 / 2 ^ (h / 1050000) := by
  rw [GenTie.get_block_subsidy_eq]; exact subsidy_formula h

theorem code_subsidy_antitone (h h' : Nat) (hle : h ≤ h') :
    Gen.get_block_subsidy h' ≤ Gen.get_block_subsidy h := by
  rw [GenTie.get_block_subsidy_eq, GenTie.get_block_subsidy_eq]; exact subsidy_antitone h h' hle

theorem code_validator_limit (v : Nat) :
    Gen.validate_sashimi_range v = decide (0 < v ∧ v ≤ supply 31500000) := by
  rw [GenTie.validate_sashimi_range_eq]; exact validator_limit v

theorem code_subsidy_zero (h : Nat) (hh : 31500000 ≤ h) : Gen.get_block_subsidy h = 0 := by
  rw [GenTie.get_block_subsidy_eq]; exact subsidy_zero h hh

/-- cumulative issuance of the code's function -/
def codeSupply : Nat → Nat
  | 0 => 0
  | n + 1 => codeSupply n + Gen.get_block_subsidy n

theorem codeSupply_eq (n : Nat) : codeSupply n = supply n := by
  induction n with
  | zero => rfl
  | succ n ih => rw [codeSupply, supply, ih, GenTie.get_block_subsidy_eq]

theorem code_total_supply (n : Nat) (hn : 31500000 ≤ n) : codeSupply n = Gen.MAX_SASHIMI := by
  rw [codeSupply_eq, total_supply n hn]; decide

end C16
end Model

import Model.Node
import Props.C13
import Props.C20Stream
import Proofs.PoolNode

/-!
# C13 along whole node histories

`Props/C13.lean` shows that the pool invariant — every pending transaction valid by itself and at the served head, no two of
them spending one output — holds of every chain manager reached by submissions and head changes (`Reachable`). This file shows
that a running node never leaves that set: every event on any connection (a transaction admitted or refused, a block adopted
with or without validation, a refused block that makes the node fall back to its last validated state, garbage) and a block
found by the node's own miner change the manager only by submissions and `set_coinstate` calls. Hence the invariant holds at every
point of every history — in particular right after a fall-back, when the served head moves *backwards*.
-/

namespace Model
namespace C13

variable (C : Crypto) (P : Params)

/-- helper: a handler step (nothing, one `set_coinstate`, one returned submission) keeps the manager reachable -/
theorem reachable_of_mgrStep {m m' : ChainMgr} (h : Reachable C P m) (hs : MgrStep C P m m') : Reachable C P m' := by
  cases hs with
  | same e => rw [e]; exact h
  | set cs v e => rw [e]; exact .setState m cs v h
  | submit t r e => exact .submit m m' t r h e

/-- one event of any kind on any connection keeps the manager reachable -/
theorem reachable_handleEvent (n : Node) (c : Nat) (ev : Incoming) (now : Int) (h : Reachable C P n.mgr) :
    Reachable C P (handleEvent C P n c ev now).mgr :=
  reachable_of_mgrStep C P h (handleEvent_mgrStep C P n c ev now)

/-- so does a block found by the node's own miner -/
theorem reachable_minerFound (n : Node) (cs : CoinState) (s : Summary) (height : Nat) (txs : List CTx) (summaryHash : Bytes)
    (now : Int) (h : Reachable C P n.mgr) :
    Reachable C P (minerFound C P n cs s height txs summaryHash now).1.1.mgr :=
  reachable_of_mgrStep C P h (minerFound_mgrStep C P n cs s height txs summaryHash now)

/-- every history of events -/
theorem reachable_run (n : Node) (tr : List C20.Ev) (h : Reachable C P n.mgr) : Reachable C P (C20.run C P n tr).mgr := by
  induction tr generalizing n with
  | nil => exact h
  | cons e rest ih =>
    exact ih (handleEvent C P n e.1 e.2.1 e.2.2) (reachable_handleEvent C P n e.1 e.2.1 e.2.2 h)

/-- **the pool is valid at every point of every history**: after any sequence of events, every pending transaction is valid by
itself and at the served head, and no two pending transactions spend the same output -/
theorem pool_valid_along_histories (n : Node) (tr : List C20.Ev) (h : Reachable C P n.mgr) :
    PoolInv C P (C20.run C P n tr).mgr :=
  pool_inv_reachable C P _ (reachable_run C P n tr h)

/-- in particular after a fall-back: a refused unsolicited block on a node that holds unvalidated blocks moves the served head
backwards to the last validated state, and the pool is valid there -/
theorem pool_valid_after_fall_back (n : Node) (c i : Nat) (b : Block) (now : Int) (h : Reachable C P n.mgr) :
    PoolInv C P (handleEvent C P n c (.msg i 0 (.dataBlock b)) now).mgr :=
  pool_inv_reachable C P _ (reachable_handleEvent C P n c _ now h)

end C13
end Model

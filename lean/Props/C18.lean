import Model.Spec
import Proofs.Validation
import Gen.Params

/-!
# C18 — checkpoints are enforced (the conformance half — genesis and the recorded blocks of the
real network keep their ids and pass full validation with the real scrypt — is executed by the
harness on every run; it is a test, labelled as such, not a theorem)
-/

namespace Model
namespace C18

variable (C : Crypto) (P : Params)

/-- below the horizon, at a checkpointed height, a block whose id differs from the built-in
checkpoint is rejected — for every table, horizon, chain state and block -/
theorem checkpoint_enforced (cs : CoinState) (b : Block) (h : Bytes)
    (hle : (b.height : Int) ≤ P.maxKnownHeight) (hk : P.knownHashes.lookup b.height = some h)
    (hne : b.id C ≠ h) : ∃ msg, validateBlockInState C P cs b = .error (.validation msg) := by
  unfold validateBlockInState
  rw [if_pos hle, hk]
  simp [require, hne]

/-- … and accepted by this check when it equals it -/
theorem checkpoint_accepts_its_id (cs : CoinState) (b : Block) (h : Bytes)
    (hle : (b.height : Int) ≤ P.maxKnownHeight) (hk : P.knownHashes.lookup b.height = some h)
    (he : b.id C = h) : validateBlockInState C P cs b = .ok () := by
  unfold validateBlockInState
  rw [if_pos hle, hk]
  simp [require, he]

/-- so no alternative history passes a checkpoint: whatever `add_block` accepts at a
checkpointed height below the horizon has exactly the checkpoint's id -/
theorem no_alternative_history (cs cs' : CoinState) (b : Block) (now : Int) (h : Bytes)
    (ha : addBlock C P cs b now = .ok cs')
    (hle : (b.height : Int) ≤ P.maxKnownHeight) (hk : P.knownHashes.lookup b.height = some h) :
    b.id C = h := by
  obtain ⟨_, h2, _⟩ := addBlock_ok C P cs cs' b now ha
  by_cases he : b.id C = h
  · exact he
  · obtain ⟨msg, hm⟩ := checkpoint_enforced C P cs b h hle hk he
    rw [hm] at h2
    cases h2

/-- above the horizon the table plays no role: full validation decides -/
theorem above_horizon_full_validation (cs : CoinState) (b : Block)
    (hgt : P.maxKnownHeight < (b.height : Int)) (h : validateBlockInState C P cs b = .ok ()) :
    InState C P cs b :=
  validateBlockInState_ok C P cs b (by omega) h

/-! ## the table regenerated from cheating.py on this run -/

/-- the horizon is the greatest checkpointed height, every key is at or below it, and keys are
distinct (so `lookup` finds the entry the Python dict holds) -/
theorem production_table_shape :
    (Gen.KNOWN_HASHES.all fun p => decide ((p.1 : Int) ≤ Gen.params.maxKnownHeight)) = true ∧
    (Gen.KNOWN_HASHES.any fun p => decide ((p.1 : Int) = Gen.params.maxKnownHeight)) = true ∧
    (Gen.KNOWN_HASHES.map (·.1)).Nodup ∧
    (Gen.KNOWN_HASHES.all fun p => p.2.length = 32) = true ∧
    Gen.params.knownHashes = Gen.KNOWN_HASHES := by
  refine ⟨by decide +kernel, by decide +kernel, by decide +kernel, by decide +kernel, rfl⟩

/-- every entry of the production table is enforced -/
theorem production_checkpoints_enforced (cs : CoinState) (b : Block) (h : Bytes)
    (hk : Gen.params.knownHashes.lookup b.height = some h) (hne : b.id C ≠ h) :
    ∃ msg, validateBlockInState C Gen.params cs b = .error (.validation msg) := by
  apply checkpoint_enforced C Gen.params cs b h _ hk hne
  -- a height found in the table is at or below the horizon
  have hall := production_table_shape.1
  have : ∀ (l : List (Nat × Bytes)) (k : Nat) (v : Bytes), l.lookup k = some v → (k, v) ∈ l := by
    intro l
    induction l with
    | nil => intro k v h; simp at h
    | cons p rest ih =>
      intro k v h
      obtain ⟨pk, pv⟩ := p
      simp only [List.lookup] at h
      split at h
      · rename_i heq
        simp only [Option.some.injEq] at h
        have : k = pk := by simpa using heq
        subst this; subst h; simp
      · exact List.mem_cons_of_mem _ (ih k v h)
  have hm := this _ _ _ hk
  rw [List.all_eq_true] at hall
  have := hall _ (by rw [← production_table_shape.2.2.2.2]; exact hm)
  simpa using this

/-! ## non-vacuity -/

example : Gen.params.knownHashes.lookup 0 ≠ none ∧ Gen.params.knownHashes.lookup 163000 ≠ none := by
  constructor <;> decide +kernel

end C18
end Model

import Model.Store
import Proofs.StoreLemmas

/-!
# C08 — persistence fidelity: the block store returns what was written  *(partial)*

The full statement — *whatever* sequence of accepted blocks, including competing forks that
contain the same pending transaction — is false of the code (known finding D2): see
`shared_transaction_counterexample`. `store_roundtrip_partial` proves it for every history in
which no transaction id occurs in two different written blocks.
-/

namespace Model
namespace C08

variable (C : Crypto)

def txHashes (b : Block) : List Bytes := b.txs.map fun t => C.sha256d (encTx t.tx)

/-- a history of flushes of accepted blocks: parents are flushed no later than their children,
spent outputs were created by transactions flushed no later, every block has its reward
transaction, ids are distinct, **and no transaction id occurs in two different blocks** -/
structure GoodHistory (batches : List (List Block)) : Prop where
  idsNodup : (batches.flatten.map (·.id C)).Nodup
  parents : ∀ pre b post, batches.flatten = pre ++ b :: post →
    b.prev = zeros 32 ∨ ∃ p ∈ pre, p.id C = b.prev
  nonempty : ∀ b ∈ batches.flatten, b.txs ≠ []
  refs : ∀ done batch rest, batches = done ++ batch :: rest →
    ∀ b ∈ batch, ∀ t ∈ b.txs, ∀ i ∈ t.tx.inputs, i.ref.hash = zeros 32 ∨
      ∃ b' ∈ done.flatten ++ batch, ∃ t' ∈ b'.txs, C.sha256d (encTx t'.tx) = i.ref.hash ∧ i.ref.index < t'.tx.outputs.length
  noSharedTx : (batches.flatten.flatMap (txHashes C)).Nodup

/-- what identifies a block and its content (the encoding is a function of header and
transaction contents, so equal summaries are byte-identical blocks) -/
def summaryOf (b : Block) : Bytes × Header × List Tx := (b.id C, b.header, b.txs.map (·.tx))

/-- reading the store back yields exactly the blocks written — same ids, same content —, in
height order, each transaction carrying the hash of its encoding as id -/
theorem store_roundtrip_partial (batches : List (List Block)) (h : GoodHistory C batches) :
    ∃ s, Store.writeAll C Store.empty batches = (s, true) ∧ s.txnOpen = false ∧
      (s.read.map (summaryOf C)).Perm (batches.flatten.map (summaryOf C)) ∧
      (s.read.map (·.height)).Pairwise (· ≤ ·) ∧
      (∀ b ∈ s.read, b.cached = some (b.id C)) ∧
      ∀ b ∈ s.read, ∀ t ∈ b.txs, t.cached = some (C.sha256d (encTx t.tx)) := by
  obtain ⟨hids, hpar, hne, hrefs, hshared⟩ := h
  have hw : Store.writeAll C Store.empty batches = (StoreL.storeOf C batches.flatten, true) :=
    StoreL.writeAll_storeOf C batches [] hids hpar hrefs hshared
  have hread := StoreL.read_storeOf C batches.flatten hne hids
  have hrow : ∀ r ∈ sortByHeight (batches.flatten.map (StoreL.rowOf C)),
      ∃ b ∈ batches.flatten, r = StoreL.rowOf C b ∧
        StoreL.readRow (StoreL.storeOf C batches.flatten) r = StoreL.readOf C b := by
    intro r hr
    have : r ∈ batches.flatten.map (StoreL.rowOf C) := (StoreL.sortByHeight_perm _).mem_iff.1 hr
    obtain ⟨b, hb, rfl⟩ := List.mem_map.1 this
    exact ⟨b, hb, rfl, StoreL.readRow_storeOf C _ hne hids hshared b hb⟩
  refine ⟨StoreL.storeOf C batches.flatten, hw, rfl, ?_, ?_, ?_, ?_⟩
  · rw [hread, List.map_map]
    refine ((StoreL.sortByHeight_perm _).map _).trans ?_
    rw [List.map_map]
    apply List.Perm.of_eq
    apply List.map_congr_left
    intro b hb
    simp only [Function.comp_apply]
    rw [StoreL.readRow_storeOf C _ hne hids hshared b hb]
    simp [summaryOf, StoreL.readOf, Block.id, List.map_map, Function.comp_def]
  · rw [hread, List.map_map]
    exact List.pairwise_map.2 (StoreL.sortByHeight_sorted _)
  · intro b hb
    rw [hread] at hb
    obtain ⟨r, _, rfl⟩ := List.mem_map.1 hb
    rfl
  · intro b hb t ht
    rw [hread] at hb
    obtain ⟨r, hr, rfl⟩ := List.mem_map.1 hb
    obtain ⟨b0, _, _, hrd⟩ := hrow r hr
    rw [hrd] at ht
    obtain ⟨t0, _, rfl⟩ := List.mem_map.1 ht
    rfl

/-- a toy instance of the primitives for the concrete counterexample below -/
def toy : Crypto := ⟨fun x => x.take 4 ++ [UInt8.ofNat x.length], fun _ => [], fun _ _ => [], fun _ _ _ => true⟩

/-- the full statement fails (D2): two competing blocks that contain the same transaction are
written in two flushes; the block written second is read back **without** that transaction.
(The concrete blocks: a parent `g`, a transaction `tx` spending nothing checked by the store,
fork blocks `a` and `b` on `g`, both containing `tx` after their own reward transaction.) -/
theorem shared_transaction_counterexample :
    ∃ (g a b : Block) (tx : CTx), tx ∈ a.txs ∧ tx ∈ b.txs ∧ a.id toy ≠ b.id toy ∧
      ∃ s, Store.writeAll toy Store.empty [[g], [a], [b]] = (s, true) ∧
        ∃ b' ∈ s.read, b'.id toy = b.id toy ∧ tx.tx ∉ b'.txs.map (·.tx) ∧ tx.tx ∈ b.txs.map (·.tx) := by
  open StoreL.Ex in
  have hg : toy.sha256d (encTx txG) = hG := by simp [toy, txG, encTx_nil, hG]
  open StoreL.Ex in
  have ha : toy.sha256d (encTx txA) = hA := by simp [toy, txA, encTx_one, hA]
  open StoreL.Ex in
  have hb : toy.sha256d (encTx txB) = hB := by simp [toy, txB, encTx_one, hB]
  open StoreL.Ex in
  have hs : toy.sha256d (encTx txS) = hS := by simp [toy, txS, encTx_one, hS]
  open StoreL.Ex in
  have h1 : Store.write toy Store.empty [gB] = (exStore1, true) := by
    simp [Store.write, Store.empty, insertChain, insertLocator, insertContent,
      inputsForeignKeyOk, gB, Block.id, hg, exStore1, hdr]
    simp [txG]
  open StoreL.Ex in
  have h2 : Store.write toy exStore1 [aB] = (exStore2, true) := by
    simp [Store.write, insertChain, insertLocator, insertContent,
      inputsForeignKeyOk, aB, Block.id, ha, hs, exStore1, exStore2, hG, hA, hS, hdr]
    simp [txA, txS]
  open StoreL.Ex in
  have h3 : Store.write toy exStore2 [bB] = (exStore, true) := by
    simp [Store.write, insertChain, insertLocator, insertContent,
      inputsForeignKeyOk, bB, Block.id, hb, hs, exStore2, exStore, hG, hA, hS, hB, hdr]
    simp [txB, txS]
  open StoreL.Ex in
  have hw : Store.writeAll toy Store.empty [[gB], [aB], [bB]] = (exStore, true) := by
    simp only [Store.writeAll, h1, h2, h3]
  open StoreL.Ex in
  exact ⟨gB, aB, bB, ⟨txS, none⟩, by decide, by decide, by decide, exStore, hw, bRead, bRead_mem,
    by decide, by decide, by decide⟩

/-- non-vacuity: a concrete two-flush history (a parent, then a child with two transactions)
satisfies `GoodHistory` for the toy primitives -/
example : GoodHistory toy [[StoreL.Ex.gB], [StoreL.Ex.aB]] := by
  open StoreL.Ex in
  have hg : toy.sha256d (encTx txG) = hG := by simp [toy, txG, encTx_nil, hG]
  open StoreL.Ex in
  have ha : toy.sha256d (encTx txA) = hA := by simp [toy, txA, encTx_one, hA]
  open StoreL.Ex in
  have hs : toy.sha256d (encTx txS) = hS := by simp [toy, txS, encTx_one, hS]
  open StoreL.Ex in
  have hin : ∀ b ∈ [gB, aB], ∀ t ∈ b.txs, t.tx.inputs = [] := by decide
  open StoreL.Ex in
  refine ⟨by decide, ?_, by decide, ?_, ?_⟩
  · intro pre b post hsplit
    match pre, hsplit with
    | [], hsplit =>
      simp only [List.flatten_cons, List.flatten_nil, List.nil_append, List.cons_append,
        List.cons.injEq] at hsplit
      left; rw [← hsplit.1]; decide
    | [p], hsplit =>
      simp only [List.flatten_cons, List.flatten_nil, List.nil_append, List.cons_append,
        List.cons.injEq] at hsplit
      right; refine ⟨p, by simp, ?_⟩
      rw [← hsplit.1, ← hsplit.2.1]; decide
    | p :: q :: r, hsplit =>
      simp only [List.flatten_cons, List.flatten_nil, List.nil_append, List.cons_append,
        List.cons.injEq] at hsplit
      exact absurd hsplit.2.2 (by simp)
  · intro done batch rest hsplit b hb t ht i hi
    have hbatch : batch ∈ [[gB], [aB]] := by rw [hsplit]; simp
    have hb' : b ∈ [gB, aB] := by
      simp only [List.mem_cons, List.not_mem_nil, or_false] at hbatch
      rcases hbatch with rfl | rfl
      · simp only [List.mem_singleton] at hb; simp [hb]
      · simp only [List.mem_singleton] at hb; simp [hb]
    rw [hin b hb' t ht] at hi
    cases hi
  · simp [txHashes, gB, aB, hg, ha, hs, hG, hA, hS]

end C08
end Model

import Model.Node
import Props.C09
import Props.C20Stream
import Proofs.Stored

/-!
# C08 / C09 at node level: whatever the peers send, the store keeps up with the chain state

`Props/C09.lean` shows per delivery that an accepted block is written to the store; `Props/C08.lean` that the store returns what
was written. This file closes the gap between the two for whole histories of a running node: across *any* sequence of events on
any connections — unsolicited blocks, blocks adopted unvalidated during a bulk download (which only reach the write buffer),
refused blocks (which roll the node back to its last validated state and drop the write buffer), garbage — every block of the
chain state the node serves is in the store or waiting in its write buffer, and every block of the last validated state is in
the store. Hence after a flush (shutdown) the store holds every block of the served state: a restarted node loses nothing.
-/

namespace Model
namespace C09

variable (C : Crypto) (P : Params)

def onDisk (n : Node) (id : Bytes) : Prop := ∃ x ∈ n.disk, x.id C = id
def buffered (n : Node) (id : Bytes) : Prop := ∃ x ∈ n.wbuf, x.id C = id

/-- the store keeps up with the chain state -/
structure Stored (n : Node) : Prop where
  /-- a last validated state exists (it is set when the node starts and never reset) -/
  hasValidated : n.mgr.lastValid.isSome = true
  /-- every block of the served state is in the store or in its write buffer -/
  served : ∀ id, n.mgr.coinstate.blocks.contains id = true → onDisk C n id ∨ buffered C n id
  /-- every block of the last validated state is in the store -/
  validated : ∀ lv, n.mgr.lastValid = some lv → ∀ id, lv.blocks.contains id = true → onDisk C n id

/-- helper: `Stored` only looks at served state, last validated state, write buffer and store -/
theorem stored_of_sameStore {n n' : Node} (hs : SameStore n n') (h : Stored C n) : Stored C n' := by
  obtain ⟨h1, h2, h3, h4⟩ := hs
  refine ⟨by rw [h2]; exact h.hasValidated, ?_, ?_⟩
  · intro id hid
    rw [h1] at hid
    rcases h.served id hid with ⟨x, hx, hxi⟩ | ⟨x, hx, hxi⟩
    · exact .inl ⟨x, by rw [h4]; exact hx, hxi⟩
    · exact .inr ⟨x, by rw [h3]; exact hx, hxi⟩
  · intro lv hlv id hid
    rw [h2] at hlv
    obtain ⟨x, hx, hxi⟩ := h.validated lv hlv id hid
    exact ⟨x, by rw [h4]; exact hx, hxi⟩

/-- helper: after a flush, what was in the store or in its buffer is in the store -/
theorem onDisk_flush (n : Node) (id : Bytes) (h : onDisk C n id ∨ buffered C n id) : onDisk C (Node.flush C n) id := by
  rcases h with ⟨x, hx, hxi⟩ | ⟨x, hx, hxi⟩
  · exact ⟨x, flush_disk_mono C n x hx, hxi⟩
  · obtain ⟨y, hy, hyi⟩ := flush_disk_of_wbuf C n x hx
    exact ⟨y, hy, hyi.trans hxi⟩

/-- helper: a block added to a state `cs` held by the store or its buffer, made the served and last validated state, buffered
and flushed -/
theorem stored_of_accepted (n n' : Node) (cs changed : CoinState) (b : Block)
    (hcs : ∀ id, cs.blocks.contains id = true → onDisk C n id ∨ buffered C n id)
    (hadd : addBlockNoValidation C cs b = .ok changed)
    (h1 : n'.mgr.coinstate = changed) (h2 : n'.mgr.lastValid = some changed)
    (hd : n'.disk = (Node.flush C { n with wbuf := n.wbuf ++ [b] }).disk) : Stored C n' := by
  have key : ∀ id, changed.blocks.contains id = true → onDisk C n' id := by
    intro id hid
    rw [add_ok_contains C hadd id] at hid
    simp only [Bool.or_eq_true, decide_eq_true_eq] at hid
    have hf : onDisk C (Node.flush C { n with wbuf := n.wbuf ++ [b] }) id := by
      apply onDisk_flush
      rcases hid with hid | hid
      · exact .inr ⟨b, List.mem_append_right _ (List.mem_singleton.mpr rfl), hid⟩
      · rcases hcs id hid with ⟨x, hx, hxi⟩ | ⟨x, hx, hxi⟩
        · exact .inl ⟨x, hx, hxi⟩
        · exact .inr ⟨x, List.mem_append_left _ hx, hxi⟩
    obtain ⟨x, hx, hxi⟩ := hf
    exact ⟨x, by rw [hd]; exact hx, hxi⟩
  refine ⟨by rw [h2]; rfl, fun id hid => .inl (key id (h1 ▸ hid)), ?_⟩
  intro lv2 hlv2 id hid
  rw [h2] at hlv2
  cases hlv2
  exact key id hid

/-- helper: the block handler keeps `Stored` -/
theorem stored_handleBlockReceived (n : Node) (c r : Nat) (b : Block) (now : Int) (h : Stored C n) :
    Stored C (handleBlockReceived C P n c r b now).1 := by
  have ho := hbr_outcome C P n c r b now
  generalize (handleBlockReceived C P n c r b now).1 = n' at ho
  cases ho with
  | same hs => exact stored_of_sameStore C hs h
  | rolledBack lv hlv hcs hlv' hw hd =>
    refine ⟨by rw [hlv']; rfl, ?_, ?_⟩
    · intro id hid
      rw [hcs] at hid
      obtain ⟨x, hx, hxi⟩ := h.validated lv hlv id hid
      exact .inl ⟨x, by rw [hd]; exact hx, hxi⟩
    · intro lv2 hlv2 id hid
      rw [hlv'] at hlv2
      cases hlv2
      obtain ⟨x, hx, hxi⟩ := h.validated lv hlv id hid
      exact ⟨x, by rw [hd]; exact hx, hxi⟩
  | noValidated hlv hcs hlv' hw hd =>
    have hv := h.hasValidated
    rw [hlv] at hv
    cases hv
  | accepted changed hadd hcs hlv' hw hd =>
    exact stored_of_accepted C n n' n.mgr.coinstate changed b h.served hadd hcs hlv' hd
  | adopted changed hadd hcs hlv' hw hd =>
    refine ⟨by rw [hlv']; exact h.hasValidated, ?_, ?_⟩
    · intro id hid
      rw [hcs, add_ok_contains C hadd id] at hid
      simp only [Bool.or_eq_true, decide_eq_true_eq] at hid
      rcases hid with hid | hid
      · exact .inr ⟨b, by rw [hw]; exact List.mem_append_right _ (List.mem_singleton.mpr rfl), hid⟩
      · rcases h.served id hid with ⟨x, hx, hxi⟩ | ⟨x, hx, hxi⟩
        · exact .inl ⟨x, by rw [hd]; exact hx, hxi⟩
        · exact .inr ⟨x, by rw [hw]; exact List.mem_append_left _ hx, hxi⟩
    · intro lv hlv id hid
      rw [hlv'] at hlv
      obtain ⟨x, hx, hxi⟩ := h.validated lv hlv id hid
      exact ⟨x, by rw [hd]; exact hx, hxi⟩

/-- helper: every message keeps `Stored` -/
theorem stored_handleMessage (n : Node) (c i r : Nat) (m : InMsg) (now : Int) (h : Stored C n) :
    Stored C (handleMessage C P n c i r m now).1 := by
  rcases handleMessage_store C P n c i r m now with hs | ⟨b, hb⟩
  · exact stored_of_sameStore C hs h
  · rw [hb]
    exact stored_handleBlockReceived C P n c r b now h

/-- one event of any kind on any connection -/
theorem stored_handleEvent (n : Node) (c : Nat) (ev : Incoming) (now : Int) (h : Stored C n) :
    Stored C (handleEvent C P n c ev now) := by
  cases ev with
  | closed => exact stored_of_sameStore C (SameStore.disconnect n c) h
  | undecodable => exact stored_of_sameStore C (SameStore.disconnect n c) h
  | badFrame => exact stored_of_sameStore C (SameStore.disconnect n c) h
  | msg i r m =>
    have hm := stored_handleMessage C P n c i r m now h
    unfold handleEvent
    simp only
    generalize handleMessage C P n c i r m now = res at hm
    obtain ⟨n', o⟩ := res
    cases o with
    | none => exact hm
    | some e => exact stored_of_sameStore C (SameStore.disconnect n' c) hm

/-- a block found by the node's own miner (on a state `cs` all of whose blocks the store or its buffer holds) -/
theorem stored_minerFound (n : Node) (cs : CoinState) (s : Summary) (height : Nat) (txs : List CTx) (summaryHash : Bytes)
    (now : Int) (h : Stored C n)
    (hcs : ∀ id, cs.blocks.contains id = true → onDisk C n id ∨ buffered C n id) :
    Stored C (minerFound C P n cs s height txs summaryHash now).1.1 := by
  unfold minerFound
  split
  · exact h
  · simp only
    split
    · exact h
    · split
      · exact h
      · rename_i cs' hok
        obtain ⟨_, _, hadd⟩ := addBlock_ok C P _ _ _ now hok
        exact stored_of_accepted C n _ cs cs' _ hcs hadd rfl rfl rfl

/-- every history of events -/
theorem stored_run (n : Node) (tr : List C20.Ev) (h : Stored C n) : Stored C (C20.run C P n tr) := by
  unfold C20.run
  induction tr generalizing n with
  | nil => exact h
  | cons e rest ih =>
    simp only [List.foldl_cons]
    exact ih _ (stored_handleEvent C P n e.1 e.2.1 e.2.2 h)

/-- **a restart loses nothing**: after any history and a flush, every block of the served chain state is in the store -/
theorem served_blocks_survive_restart (n : Node) (tr : List C20.Ev) (h : Stored C n) (id : Bytes)
    (hid : (C20.run C P n tr).mgr.coinstate.blocks.contains id = true) :
    onDisk C (Node.flush C (C20.run C P n tr)) id :=
  onDisk_flush C _ id ((stored_run C P n tr h).served id hid)

/-! ### non-vacuity: a freshly started node (empty chain state, validated, nothing buffered) -/

private def fresh : Node := ⟨⟨CoinState.empty, [], some CoinState.empty⟩, [], [], [⟨true, false, true, true, [], false, []⟩], 7⟩

example : Stored C fresh := by
  refine ⟨rfl, ?_, ?_⟩
  · intro id hid
    exact absurd hid (by simp [fresh, CoinState.empty, Map.contains])
  · intro lv hlv id hid
    simp only [fresh, Option.some.injEq] at hlv
    subst hlv
    exact absurd hid (by simp [CoinState.empty, Map.contains])

end C09
end Model

import Props.C01
import Props.C02
import Props.C03
import Props.C03Balance
import Props.C04
import Props.C05
import Props.C08
import Props.C09
import Props.C10
import Props.C10Follow
import Props.C10Fetch
import Props.C10Converge
import Props.C14
import Props.C15
import Props.C18
import Props.C20

/-!
# NonVacuity2 — the hypotheses of the property theorems can be met by concrete, non-degenerate instances

Every `example` / `nonvacuous_*` theorem below *applies* the audited theorem to concrete values, so all its hypotheses
hold together for that instance. The instances are built on the toy primitives of `C10Converge` (`exC`: every hash is
`[]`, every signature verifies; `exP`: no checkpoint horizon, subsidy 10, 8 samples of 4 bytes).

The chain used throughout: a genesis block `G` (reward 10 to key `[5]`, transaction id `[7]`, block id `[1]`) and a
block `B1` on it (id `[2]`) that holds a reward of 14 = subsidy 10 + fee 4 and one spend of `([7], 0)` paying 6 to key `[8]`.
`B1` passes **full** validation (`addBlock`) on the state after `G`.

One theorem found to be satisfiable by degenerate states only is recorded at the end of the C02 section
(`validChain_only_genesis_of_positive_horizon`, `production_validChain_only_genesis`).
-/

namespace NonVacuity2
open Model C10Converge

/-! ## helpers -/

def okOr (x : Except Err CoinState) : CoinState :=
  match x with
  | .ok s => s
  | .error _ => .empty

theorem eq_ok_okOr {x : Except Err CoinState}
    (h : (match x with | .ok _ => true | .error _ => false) = true) : x = .ok (okOr x) := by
  cases x with
  | ok s => rfl
  | error e => cases h

theorem ne_ok_of_isError {α : Type} {x : Except Err α}
    (h : (match x with | .ok _ => false | .error _ => true) = true) : ∀ a, x ≠ .ok a := by
  intro a e
  rw [e] at h
  cases h

/-! ## the chain `G ← B1` -/

def cbG : CTx := ⟨⟨[⟨thinAir, .coinbase 0 []⟩], [⟨10, [5]⟩]⟩, some [7]⟩
def G : Block := ⟨⟨⟨0, zeros 32, [7], 0, [1], 0⟩, ⟨[], [], []⟩⟩, [cbG], some [1]⟩

/-- the state after the genesis block -/
def sG : CoinState := okOr (addBlockNoValidation exC .empty G)
theorem hG : addBlockNoValidation exC .empty G = .ok sG := eq_ok_okOr (by decide +kernel)

/-- spends the genesis reward `([7], 0)` (10 to key `[5]`): 6 to key `[8]`, fee 4 -/
def spend : CTx := ⟨⟨[⟨⟨[7], 0⟩, .secp [9]⟩], [⟨6, [8]⟩]⟩, some [11]⟩
/-- the reward of height 1: subsidy 10 + fee 4 -/
def cb1 : CTx := ⟨⟨[⟨thinAir, .coinbase 1 []⟩], [⟨14, [5]⟩]⟩, some [12]⟩
/-- timestamp 5 > 0, target `[1]` = the parent's, Merkle root of two ids = `sha256d … = []`, evidence as recomputed -/
def B1 : Block := ⟨⟨⟨1, [1], [], 5, [1], 0⟩, ⟨[], zeros 32, []⟩⟩, [cb1, spend], some [2]⟩

/-- the state after `B1` was accepted by full validation -/
def s1 : CoinState := okOr (addBlock exC exP sG B1 5)
theorem B1_accepted : addBlock exC exP sG B1 5 = .ok s1 := eq_ok_okOr (by decide +kernel)
theorem B1_above_horizon : exP.maxKnownHeight < B1.height := by decide

/-! ## C01 -/

/-- `accepted_spends_exist_and_are_signed`: hypotheses met by `B1` on `sG`; the conclusion is about a real spend -/
theorem nonvacuous_C01_accepted_spends_exist_and_are_signed :
    ∃ u cb rest, sG.utxoAt.get? B1.prev = some u ∧ B1.txs = cb :: rest ∧
      ∀ t ∈ rest, ∀ i ∈ t.tx.inputs, ∃ o s, u.get? i.ref = some o ∧ i.sig = .secp s ∧
        exC.verify o.pk (encTx (signable t.tx)) s = true :=
  C01.accepted_spends_exist_and_are_signed exC exP sG s1 B1 5 B1_accepted B1_above_horizon

/-- … and the instance is not degenerate: the block has a non-reward transaction with an input -/
example : B1.txs.tail = [spend] ∧ spend.tx.inputs ≠ [] ∧
    (sG.utxoAt.get? B1.prev).bind (·.get? ⟨[7], 0⟩) = some ⟨10, [5]⟩ := by decide +kernel

theorem nonvacuous_C01_no_double_spend_in_block :
    ∃ cb rest, B1.txs = cb :: rest ∧ (allRefs rest).Nodup ∧ ∀ t ∈ rest, ∀ i ∈ t.tx.inputs, i.ref ≠ thinAir :=
  C01.no_double_spend_in_block exC exP sG s1 B1 5 B1_accepted

/-- a block like `B1` whose spend names an output `([99], 0)` that the parent's unspent set does not hold -/
def spendMissing : CTx := ⟨⟨[⟨⟨[99], 0⟩, .secp [9]⟩], [⟨6, [8]⟩]⟩, some [13]⟩
def B1missing : Block := ⟨⟨⟨1, [1], [], 5, [1], 0⟩, ⟨[], zeros 32, []⟩⟩, [cb1, spendMissing], some [3]⟩

/-- `created_in_block_not_spendable` / `missing_or_spent_or_other_fork_rejected`: hypotheses met -/
theorem nonvacuous_C01_missing_rejected : ∀ cs', addBlock exC exP sG B1missing 5 ≠ .ok cs' :=
  C01.missing_or_spent_or_other_fork_rejected exC exP sG B1missing 5 [(⟨[7], 0⟩, ⟨10, [5]⟩)]
    (by decide) (by decide +kernel)
    ⟨spendMissing, by decide, ⟨⟨[99], 0⟩, .secp [9]⟩, by decide, by decide⟩

/-- `placeholder_signature_rejected`: a spend carrying the placeholder object -/
def spendPlaceholder : CTx := ⟨⟨[⟨⟨[7], 0⟩, .signable⟩], [⟨6, [8]⟩]⟩, some [14]⟩
def B1placeholder : Block := ⟨⟨⟨1, [1], [], 5, [1], 0⟩, ⟨[], zeros 32, []⟩⟩, [cb1, spendPlaceholder], some [3]⟩
example : ∀ cs', addBlock exC exP sG B1placeholder 5 ≠ .ok cs' :=
  C01.placeholder_signature_rejected exC exP sG B1placeholder 5
    ⟨spendPlaceholder, by decide, ⟨⟨[7], 0⟩, .signable⟩, by decide, rfl⟩

/-! ## C02 -/

theorem nonvacuous_C02_accept_reward_bound :
    ∃ u cb rest fees, sG.utxoAt.get? B1.prev = some u ∧ B1.txs = cb :: rest ∧
      blockFees u rest = .ok fees ∧
      (outputsValue cb.tx.outputs : Int) ≤ (subsidy exP B1.height : Int) + fees :=
  C02.accept_reward_bound exC exP sG s1 B1 5 B1_accepted B1_above_horizon

/-- the bound is tight here: reward 14 = subsidy 10 + fee 4 (one more unit is rejected, see `B1greedy`) -/
example : (sG.utxoAt.get? B1.prev).map (fun u => blockFees u [spend]) = some (.ok 4) ∧
    outputsValue cb1.tx.outputs = 14 ∧ subsidy exP B1.height = 10 := by decide +kernel

def cb1greedy : CTx := ⟨⟨[⟨thinAir, .coinbase 1 []⟩], [⟨15, [5]⟩]⟩, some [12]⟩
def B1greedy : Block := ⟨⟨⟨1, [1], [], 5, [1], 0⟩, ⟨[], zeros 32, []⟩⟩, [cb1greedy, spend], some [2]⟩
example : ∀ cs', addBlock exC exP sG B1greedy 5 ≠ .ok cs' := ne_ok_of_isError (by decide +kernel)

example := C02.accept_transaction_values exC exP sG s1 B1 5 B1_accepted B1_above_horizon

theorem nonvacuous_C02_conservation :
    ∃ u u', sG.utxoAt.get? B1.prev = some u ∧ s1.utxoAt.get? (B1.id exC) = some u' ∧
      totalValue u' ≤ totalValue u + subsidy exP B1.height :=
  C02.conservation exC exP sG s1 B1 5 B1_accepted B1_above_horizon

/-- 10 before, 20 = 14 + 6 after, subsidy 10 -/
example : (sG.utxoAt.get? B1.prev).map totalValue = some 10 ∧
    (s1.utxoAt.get? (B1.id exC)).map totalValue = some 20 := by decide +kernel

/-- `ValidChain` has a two-block instance when there is no checkpoint horizon (`exP.maxKnownHeight = -1`) -/
theorem validChain_G : C02.ValidChain exC exP sG G :=
  .genesis G sG [(⟨[7], 0⟩, ⟨10, [5]⟩)] hG rfl rfl (by decide +kernel) (by decide)

theorem validChain_B1 : C02.ValidChain exC exP s1 B1 :=
  .step sG s1 G B1 5 validChain_G rfl B1_accepted B1_above_horizon (by decide)

theorem nonvacuous_C02_supply_bound :
    ∃ u, s1.utxoAt.get? (B1.id exC) = some u ∧ totalValue u ≤ C02.schedule exP (B1.height + 1) :=
  C02.supply_bound exC exP s1 B1 validChain_B1

example : C02.schedule exP (B1.height + 1) = 20 := by decide

/-- **PROBLEM (degenerate only).** With a checkpoint horizon of 1 or more, `ValidChain` holds of genesis-only chains
and of nothing else: a `step` needs `P.maxKnownHeight < b.height` *and* full validation, full validation forces
`b.height = parent.height + 1`, the chain starts at height 0, so the first step needs `P.maxKnownHeight < 1`. -/
theorem validChain_only_genesis_of_positive_horizon (C : Crypto) (P : Params) (cs : CoinState) (tip : Block)
    (hpos : 1 ≤ P.maxKnownHeight) (hv : C02.ValidChain C P cs tip) :
    tip.height = 0 ∧ tip.prev = zeros 32 ∧ addBlockNoValidation C .empty tip = .ok cs := by
  have aux : cs.blocks.get? (tip.id C) = some tip ∧
      tip.height = 0 ∧ tip.prev = zeros 32 ∧ addBlockNoValidation C .empty tip = .ok cs := by
    induction hv with
    | genesis g cs u hadd hp hh hu hle =>
      exact ⟨by rw [(add_ok_inv C hadd).1, Map.get?_set_self], hh, hp, hadd⟩
    | step cs cs' p b now _ hprev hadd hz _ ih =>
      exfalso
      obtain ⟨hp, hp0, _, _⟩ := ih
      obtain ⟨_, h2, _⟩ := addBlock_ok C P cs cs' b now hadd
      obtain ⟨⟨pb, hpb, _, hheight, _⟩, _, _⟩ := validateBlockInState_ok C P cs b (by omega) h2
      rw [hprev, hp] at hpb
      cases hpb
      omega
  exact aux.2

/-- the production constants have the horizon 163000, so the hypothesis of `C02.supply_bound_production` is met only
by a chain consisting of a genesis block alone: the theorem says nothing about any chain of two or more blocks -/
theorem production_validChain_only_genesis (C : Crypto) (cs : CoinState) (tip : Block)
    (hv : C02.ValidChain C Gen.params cs tip) : tip.height = 0 ∧ tip.prev = zeros 32 :=
  let h := validChain_only_genesis_of_positive_horizon C Gen.params cs tip (by decide) hv
  ⟨h.1, h.2.1⟩

/-! ## C05 -/

/-- `accept_header_rules` -/
example :=
  C05.accept_header_rules exC exP sG s1 B1 5 B1_accepted B1_above_horizon

/-- for `id_numerically_below_target` the id has to be the header's hash and as long as the target: primitives whose
hash is the one-byte string `[0]`, a block without cached id, target `[1]` -/
def C2 : Crypto := ⟨fun _ => [0], fun _ => [], fun _ _ => [], fun _ _ _ => true⟩
def sG2 : CoinState := okOr (addBlockNoValidation C2 .empty G)
def B1' : Block := ⟨⟨⟨1, [1], [0], 5, [1], 0⟩, ⟨[], zeros 32, []⟩⟩, [cb1, spend], none⟩
def s1' : CoinState := okOr (addBlock C2 exP sG2 B1' 5)
theorem B1'_accepted : addBlock C2 exP sG2 B1' 5 = .ok s1' := eq_ok_okOr (by decide +kernel)

theorem nonvacuous_C05_id_numerically_below_target : bytesToNat (B1'.id C2) < bytesToNat B1'.target :=
  C05.id_numerically_below_target C2 exP sG2 s1' B1' 5 B1'_accepted (by decide) rfl rfl

/-! ## C09 — a node that serves `G`, has the spend pending, one greeted and one not yet greeted peer -/

def peerA : PeerSt := ⟨true, false, true, true, [], false, []⟩
def peerI : PeerSt := ⟨true, false, true, false, [], false, []⟩
def nG : Node := ⟨⟨sG, [spend], some sG⟩, [], [], [peerA, peerI], 0⟩

/-- the invariant with a non-empty chain state and a non-empty pool -/
theorem nG_inv : C09.Inv exC exP nG := by
  refine ⟨rfl, rfl, ?_, by decide⟩
  intro t ht
  rw [List.mem_singleton.1 ht]
  exact ⟨ok_of_isOk (by decide +kernel), ok_of_isOk (by decide +kernel)⟩

/-- the hypothesis "the served state changed" holds for the unsolicited delivery of `B1` -/
theorem nG_changes : (handleBlockReceived exC exP nG 0 0 B1 5).1.mgr.coinstate ≠ nG.mgr.coinstate := by
  intro h
  have h' := congrArg (·.current) h
  revert h'
  decide +kernel

theorem nonvacuous_C09_enter_only_if_valid :
    addBlock exC exP nG.mgr.coinstate B1 5 = .ok (handleBlockReceived exC exP nG 0 0 B1 5).1.mgr.coinstate :=
  C09.enter_only_if_valid exC exP nG 0 B1 5 nG_inv nG_changes

-- nonvacuous_C09_accepted_is_stored
example :=
  C09.accepted_is_stored exC exP nG 0 B1 5 nG_inv nG_changes

theorem nonvacuous_C09_relayed_once_if_new_head :
    (handleBlockReceived exC exP nG 0 0 B1 5).1.peers.map (·.outbox.length) =
      nG.peers.map (fun p => if p.active then p.outbox.length + 1 else p.outbox.length) :=
  C09.relayed_once_if_new_head exC exP nG 0 B1 5 nG_inv nG_changes (by decide +kernel)

/-- what happened: one message to the greeted peer, none to the other; the block is in the store; the pending spend
left the pool because the block contains it -/
example : (handleBlockReceived exC exP nG 0 0 B1 5).1.peers.map (·.outbox.length) = [1, 0] ∧
    (handleBlockReceived exC exP nG 0 0 B1 5).1.disk = [B1] ∧
    (handleBlockReceived exC exP nG 0 0 B1 5).1.mgr.pool = [] := by decide +kernel

theorem nonvacuous_C09_inv_preserved : C09.Inv exC exP (handleBlockReceived exC exP nG 0 0 B1 5).1 :=
  C09.inv_preserved exC exP nG 0 B1 5 nG_inv

/-- `reject_no_trace`: the block that pays itself one unit too much -/
theorem nonvacuous_C09_reject_no_trace : C09.Untouched nG (handleBlockReceived exC exP nG 0 0 B1greedy 5).1 :=
  C09.reject_no_trace exC exP nG 0 B1greedy 5 nG_inv (ne_ok_of_isError (by decide +kernel))

/-- `redelivery_noop`: `G` again -/
example := C09.redelivery_noop exC exP nG 0 0 G 5 (by decide +kernel)

/-- `later_blocks_stored`: a rejected delivery, then `B1`, then `B1` again -/
theorem nonvacuous_C09_later_blocks_stored :
    ∃ x ∈ (C09.deliverAll exC exP nG [(1, B1greedy, 5), (0, B1, 5), (1, B1, 6)]).disk, x.id exC = [2] :=
  C09.later_blocks_stored exC exP nG [(1, B1greedy, 5), (0, B1, 5), (1, B1, 6)] nG_inv [2]
    (by decide +kernel) (by decide +kernel)

/-! ## C10 -/

/-- `block_relayed_at_most_once`: hypotheses met (the block is unknown, nothing relayed yet), and the bound is reached -/
theorem nonvacuous_C10_block_relayed_at_most_once :
    ∀ p ∈ (C09.deliverAll exC exP nG [(0, B1, 5), (1, B1, 6)]).peers, C10.relayCount exC [2] p.outbox ≤ 1 :=
  C10.block_relayed_at_most_once exC exP nG [(0, B1, 5), (1, B1, 6)] nG_inv [2] (by decide +kernel)
    (by
      intro p hp
      simp only [nG, List.mem_cons, List.not_mem_nil, or_false] at hp
      rcases hp with rfl | rfl <;> rfl)

example : (C09.deliverAll exC exP nG [(0, B1, 5), (1, B1, 6)]).peers.map (fun p => C10.relayCount exC [2] p.outbox)
    = [1, 0] := by decide +kernel

theorem inv_s1 : inventoryReply exC exP s1 [[99]] = .ok [[2]] := by decide +kernel

/-- `unknown_locator_answered_from_genesis` on the two-block state: the reply is the id of `B1` -/
example := C10.unknown_locator_answered_from_genesis exC exP s1 [[99]] [[2]] (by decide +kernel) inv_s1
example := C10.reply_is_consecutive_active_chain exC exP s1 [[99]] [[2]] inv_s1
example := C10.reply_at_most_one_batch exC exP s1 [[99]] [[2]] inv_s1

/-- `pending_transaction_not_relayed_again`: the spend is pending at `nG` -/
example := C10.pending_transaction_not_relayed_again exC exP nG spend (by decide)

/-- `transaction_relayed_iff_admitted`: a transaction that is not pending; here it conflicts with the pending one and
is not admitted -/
def spendConflict : CTx := ⟨⟨[⟨⟨[7], 0⟩, .secp [9]⟩], [⟨5, [8]⟩]⟩, some [15]⟩
example := C10.transaction_relayed_iff_admitted exC exP nG spendConflict (by decide)

/-! ## C10Follow -/

-- nonvacuous_C10Follow_inventory_followup
example :=
  C10Follow.inventory_followup exC exP nG 0 7 0 peerA [[2]] 5 rfl rfl (by decide) (by decide)

example := C10Follow.empty_inventory_no_request exC exP nG 0 7 0 peerA 5 rfl rfl

/-! ## C10Fetch — production scheduler constants, the node `nG` (head `G` with timestamp 0), one stale request -/

def exF : FetchParams := ⟨1, 60, 300, 60⟩
def exFs : FetchSt := ⟨0, fun _ => 0, [(50, 1)]⟩

theorem nG_head : nG.mgr.coinstate.head = some G := by decide +kernel
theorem nG_locator : locator exC nG.mgr.coinstate = .ok [[1]] := by decide +kernel

-- nonvacuous_C10Fetch_asks_again_after_timeouts
example :=
  C10Fetch.asks_again_after_timeouts exC exF nG exFs 2000 0 G [[1]] nG_head (by decide) 0 peerA rfl rfl
    (by decide) (by decide) nG_locator

-- nonvacuous_C10Fetch_request_shape
example :=
  C10Fetch.request_shape exC exF nG exFs 2000 0 G [[1]] nG_head (by decide) (by decide) (by decide) nG_locator

/-- `idle_when_not_due`: 61 seconds after the start, head fresh, not a full minute -/
example := C10Fetch.idle_when_not_due exC exF nG exFs 61 0 G nG_head (by decide)

/-- `idle_without_candidates`: the only greeted peer answered with an empty inventory 10 seconds ago -/
example := C10Fetch.idle_without_candidates exC exF nG ⟨0, fun _ => 1990, []⟩ 2000 0 G nG_head (by decide)

/-- `slot_free_when_handled`: the outstanding request went to connection 0, whose batch is complete -/
example := C10Fetch.slot_free_when_handled nG ⟨0, fun _ => 0, [(5000, 0)]⟩ 2000
  (by
    intro e he p hp
    rw [List.mem_singleton.1 he] at hp
    cases hp
    rfl)

/-! ## C14 — the wallet of key `[5]` spends its reward of `B1` at the head of `s1` -/

def u1 : Utxo := [(⟨[11], 0⟩, ⟨6, [8]⟩), (⟨[12], 0⟩, ⟨14, [5]⟩)]
def w5 : Wallet := ⟨[([5], [50])], [[5]], [], []⟩
def bal5 : PKBalances := [([8], ⟨6, [⟨[11], 0⟩]⟩), ([5], ⟨14, [⟨[12], 0⟩]⟩)]
def t5 : Tx := ⟨[⟨⟨[12], 0⟩, .secp [3]⟩], [⟨9, [8]⟩, ⟨4, [5]⟩]⟩

theorem u1_head : headUtxo s1 = some u1 := by decide +kernel
theorem w5_spend : w5.createSpend u1 bal5 9 1 [8] [5] [[3]] = .ok ({ w5 with spent := [⟨[12], 0⟩] }, t5) := by
  decide +kernel

/-- the balances handed to the wallet are the ones the node reports at the head -/
example : balancesAt exC s1 [2] = .ok bal5 := by decide +kernel

-- nonvacuous_C14_spend_shape
example := C14.spend_shape w5 _ u1 bal5 9 1 [8] [5] [[3]] t5 w5_spend

theorem sum_lookup_le (u : Utxo) (l : List OutRef) (hl : l.Nodup) :
    (l.map (fun r => ((u.get? r).map (·.value)).getD 0)).sum ≤ totalValue u := by
  have h := N_add_refsValue_le u l hl
  have e : (l.map (fun r => ((u.get? r).map (·.value)).getD 0)).sum = refsValue u l := by
    unfold refsValue
    congr 1
    apply List.map_congr_left
    intro r _
    cases u.get? r <;> rfl
  rw [e]
  omega

/-- all ten hypotheses of `spend_valid_partial` at once -/
theorem nonvacuous_C14_spend_valid_partial :
    validateTxByItself exP (CTx.fresh t5) = .ok () ∧ validateTxAtHead exC s1 (CTx.fresh t5) = .ok () :=
  C14.spend_valid_partial exC exP s1 u1 w5 _ bal5 9 1 [8] [5] [[3]] t5 u1_head w5_spend (by decide)
    (fun _ _ _ _ _ _ => rfl) (by decide)
    (fun l hl => Nat.le_trans (sum_lookup_le u1 l hl) (by decide))
    (by decide) (by decide +kernel)

/-- `insufficient_iff`: candidates present in the unspent set, a positive total; both sides are true for 20 + 1 -/
-- nonvacuous_C14_insufficient_iff
example :=
  C14.insufficient_iff w5 u1 bal5 20 1
    (by
      intro r hr
      rw [show w5.candidates bal5 = [⟨[12], 0⟩] from rfl, List.mem_singleton] at hr
      rw [hr]
      exact ⟨_, rfl⟩)
    (by decide)

example : takeUntil u1 (20 + 1) (w5.candidates bal5) 0 = .ok none := by decide +kernel
example : takeUntil u1 (9 + 1) (w5.candidates bal5) 0 ≠ .ok none := by decide +kernel

/-- `failure_is_insufficient_or_error` -/
example := C14.failure_is_insufficient_or_error w5 u1 bal5 20 1 [8] [5] [[3]] (.other "Insufficient balance")
  (by decide +kernel)
  (by
    intro r hr
    rw [show w5.candidates bal5 = [⟨[12], 0⟩] from rfl, List.mem_singleton] at hr
    rw [hr]
    exact ⟨_, rfl, by decide⟩)

/-- `successive_spends_disjoint`: two successful spends in a row from a wallet with two outputs -/
example :=
  let w : Wallet := ⟨[([1], [10])], [[1]], [], []⟩
  let u : Utxo := [(⟨[7], 0⟩, ⟨100, [1]⟩), (⟨[8], 0⟩, ⟨50, [1]⟩)]
  let bal : PKBalances := [([1], ⟨150, [⟨[7], 0⟩, ⟨[8], 0⟩]⟩)]
  C14.successive_spends_disjoint w { w with spent := [⟨[7], 0⟩] } { w with spent := [⟨[7], 0⟩, ⟨[8], 0⟩] }
    u bal 60 5 40 5 [9] [1] [[5]] [[6]]
    ⟨[⟨⟨[7], 0⟩, .secp [5]⟩], [⟨60, [9]⟩, ⟨35, [1]⟩]⟩ ⟨[⟨⟨[8], 0⟩, .secp [6]⟩], [⟨40, [9]⟩, ⟨5, [1]⟩]⟩ rfl rfl

/-! ## C15 -/

def w2 : Wallet := (Wallet.empty.addKey [1] [10]).addKey [2] [20]
theorem w2_inv : C15.Inv w2 :=
  C15.addKey_inv _ _ _ (C15.addKey_inv _ _ _ C15.empty_inv (by decide)) (by decide)

theorem nonvacuous_C15_handOut_fresh :
    [2] ∉ w2.annotations.map (·.1) ∧ [2] ∈ [(([2] : Bytes), "a")].map (·.1) ∧ [2] ∉ [([1] : Bytes)] ∧
      C15.Inv { w2 with unused := [[1]], annotations := [([2], "a")] } :=
  C15.handOut_fresh w2 { w2 with unused := [[1]], annotations := [([2], "a")] } "a" 0 [2] w2_inv (by decide)
    (by decide)

/-- `no_double_handout`: a log with two hand-outs of the same key -/
theorem nonvacuous_C15_no_double_handout : (false, [2]) ∈ [(false, ([2] : Bytes))] :=
  C15.no_double_handout [.handOut "a" 0, .saveLoad, .restore [2], .handOut "b" 0] w2 w2_inv
    [] [(false, [2])] [] [2] (by decide)

example := C15.restore_inv { w2 with unused := [[1]], annotations := [([2], "a")] } _ [2]
  (nonvacuous_C15_handOut_fresh.2.2.2) (by decide : _ = some w2)

example := C15.balance_spec w2 bal5 w2_inv

/-! ## C18 — a toy table with one checkpoint at height 1 -/

def Pck (h : Bytes) : Params := { exP with maxKnownHeight := 1, knownHashes := [(1, h)] }

/-- `checkpoint_enforced`: `B1` (id `[2]`) where the table says `[9]` -/
theorem nonvacuous_C18_checkpoint_enforced :
    ∃ msg, validateBlockInState exC (Pck [9]) sG B1 = .error (.validation msg) :=
  C18.checkpoint_enforced exC (Pck [9]) sG B1 [9] (by decide) rfl (by decide)

/-- … and the block is indeed acceptable otherwise: with its own id in the table `add_block` accepts it, which is
the hypothesis set of `no_alternative_history` -/
theorem B1_accepted_ck : addBlock exC (Pck [2]) sG B1 5 = .ok (okOr (addBlock exC (Pck [2]) sG B1 5)) :=
  eq_ok_okOr (by decide +kernel)

theorem nonvacuous_C18_no_alternative_history : B1.id exC = [2] :=
  C18.no_alternative_history exC (Pck [2]) sG _ B1 5 [2] B1_accepted_ck (by decide) rfl

example := C18.checkpoint_accepts_its_id exC (Pck [2]) sG B1 [2] (by decide) rfl rfl

/-! ## C20 -/

theorem nonvacuous_C20_rejected_block_contained :
    C20.Contained nG (handleEvent exC exP nG 0 (.msg 1 0 (.dataBlock B1greedy)) 5) 0 :=
  C20.rejected_block_contained exC exP nG 0 1 B1greedy 5 nG_inv ⟨peerA, rfl, rfl⟩
    (ne_ok_of_isError (by decide +kernel))

theorem not_admitted {x : Except Err (ChainMgr × Bool)}
    (h : (match x with | .ok (_, true) => false | _ => true) = true) : ∀ m', x ≠ .ok (m', true) := by
  intro m' e
  rw [e] at h
  cases h

/-- `rejected_transaction_contained`: a spend of a missing output, and a spend conflicting with the pending one -/
theorem nonvacuous_C20_rejected_transaction_contained :
    C20.Contained nG (handleEvent exC exP nG 0 (.msg 1 0 (.dataTx spendMissing)) 5) 0 ∧
    C20.Contained nG (handleEvent exC exP nG 0 (.msg 1 0 (.dataTx spendConflict)) 5) 0 :=
  ⟨C20.rejected_transaction_contained exC exP nG 0 1 0 spendMissing 5 (not_admitted (by decide +kernel)),
   C20.rejected_transaction_contained exC exP nG 0 1 0 spendConflict 5 (not_admitted (by decide +kernel))⟩

/-- `raising_message_contained` on the non-empty node -/
example := C20.raising_message_contained exC exP nG 0 1 0 .dataHeader 5 (.other "NotImplementedError") nG_inv
  (.inl rfl) rfl


/-! ## C03 / C04 / C03Balance — the arrival history `[G, B1]` (with a spend) and a competing child of `G` -/

theorem wf_G : WFArrivals exC [G] := .genesis G rfl rfl (by decide)
theorem wf_GB1 : WFArrivals exC [G, B1] :=
  .snoc [G] B1 G wf_G (List.mem_singleton.2 rfl) rfl rfl (by decide)
    (by intro c hc; rw [List.mem_singleton.1 hc]; decide)

def sF : CoinState := okOr (foldBlocks exC .empty [G, B1])
theorem fold_GB1 : foldBlocks exC .empty [G, B1] = .ok sF := eq_ok_okOr (by decide +kernel)

theorem nonvacuous_C03_utxo_is_replay :
    ∃ u, sF.utxoAt.get? (B1.id exC) = some u ∧ replayUtxo exC (chainOf exC [G, B1] [G, B1].length B1) [] = .ok u :=
  C03.utxo_is_replay exC [G, B1] sF wf_GB1 fold_GB1 B1 (by decide)

example : sF.utxoAt.get? (B1.id exC) = some u1 ∧ chainOf exC [G, B1] 2 B1 = [G, B1] := by decide +kernel

example := C03.balances_are_replay exC [G, B1] sF wf_GB1 fold_GB1 B1 (by decide)
example := C04.blocks_are_history exC [G, B1] sF wf_GB1 fold_GB1 [2] B1
example := C04.head_is_first_max exC [G, B1] sF wf_GB1 fold_GB1
example := C04.heads_are_leaves exC [G, B1] sF wf_GB1 fold_GB1 [2]
example := C04.index_is_ancestors exC [G, B1] sF wf_GB1 fold_GB1 B1 (by decide) 0 G

/-- `head_stable_on_ties`: a second child of `G` arrives at the state whose head is `B1` -/
def B1alt : Block := ⟨⟨⟨1, [1], [12], 6, [1], 1⟩, ⟨[], zeros 32, []⟩⟩, [cb1], some [3]⟩
theorem nonvacuous_C04_head_stable_on_ties :
    (okOr (addBlockNoValidation exC sF B1alt)).current = some [2] :=
  C04.head_stable_on_ties exC sF _ B1alt B1 [2] (by decide +kernel) (by decide +kernel) (by decide) (by decide)
    (eq_ok_okOr (by decide +kernel))

example : (okOr (addBlockNoValidation exC sF B1alt)).blocks.length = 3 := by decide +kernel

/-- `earlier_entries_unchanged` -/
example := C03.earlier_entries_unchanged exC sF _ B1alt (eq_ok_okOr (by decide +kernel)) [2] (by decide)

/-- `balance_is_sum` on the chain with the spend, under the toy primitives of the validation examples -/
-- nonvacuous_C03Balance_balance_is_sum
example :=
  fun pk => C03.balance_is_sum exC [G, B1] u1 bal5 (by decide +kernel) (by decide +kernel) (by decide +kernel) pk

example := C03.replay_keys_nodup exC [G, B1] u1 bal5 (by decide +kernel)

/-! ## C08 — a history in which a written block spends an output written before -/
open StoreL.Ex in
def txSp : Tx := ⟨[⟨⟨hA, 0⟩, .signable⟩], [⟨0, [0, 0]⟩]⟩
open StoreL.Ex in
def gS : Block := ⟨hdr 0 (zeros 32), [⟨txA, none⟩], some [1]⟩
open StoreL.Ex in
def cS : Block := ⟨hdr 1 [1], [⟨txB, none⟩, ⟨txSp, none⟩], some [2]⟩

theorem goodHistory_with_spend : C08.GoodHistory C08.toy [[gS], [cS]] := by
  refine ⟨by decide +kernel, ?_, by decide, ?_, by decide +kernel⟩
  · intro pre b post hsplit
    match pre, hsplit with
    | [], hsplit =>
      simp only [List.flatten_cons, List.flatten_nil, List.nil_append, List.cons_append,
        List.cons.injEq] at hsplit
      left; rw [← hsplit.1]; decide
    | [p], hsplit =>
      simp only [List.flatten_cons, List.flatten_nil, List.nil_append, List.cons_append,
        List.cons.injEq] at hsplit
      right; refine ⟨p, by simp, ?_⟩
      rw [← hsplit.1, ← hsplit.2.1]; decide
    | p :: q :: r, hsplit =>
      simp only [List.flatten_cons, List.flatten_nil, List.nil_append, List.cons_append,
        List.cons.injEq] at hsplit
      exact absurd hsplit.2.2 (by simp)
  · intro done batch rest hsplit b hb t ht i hi
    match done, hsplit with
    | [], hsplit =>
      simp only [List.nil_append, List.cons.injEq] at hsplit
      rw [← hsplit.1, List.mem_singleton] at hb
      subst hb
      simp only [gS, List.mem_singleton] at ht
      subst ht
      exact absurd hi (by simp [StoreL.Ex.txA])
    | [d], hsplit =>
      simp only [List.cons_append, List.nil_append, List.cons.injEq] at hsplit
      obtain ⟨hd, hbt, _⟩ := hsplit
      subst hd hbt
      rw [List.mem_singleton] at hb
      subst hb
      simp only [cS, List.mem_cons, List.not_mem_nil, or_false] at ht
      rcases ht with rfl | rfl
      · exact absurd hi (by simp [StoreL.Ex.txB])
      · right
        simp only [txSp, List.mem_singleton] at hi
        subst hi
        exact ⟨gS, by simp, ⟨StoreL.Ex.txA, none⟩, by decide, by decide +kernel, by decide⟩
    | d :: e :: r, hsplit =>
      simp only [List.cons_append, List.cons.injEq] at hsplit
      exact absurd hsplit.2.2 (by simp)

theorem nonvacuous_C08_store_roundtrip_partial :
    ∃ s, Store.writeAll C08.toy Store.empty [[gS], [cS]] = (s, true) ∧ s.txnOpen = false ∧
      (s.read.map (C08.summaryOf C08.toy)).Perm ([[gS], [cS]].flatten.map (C08.summaryOf C08.toy)) ∧
      (s.read.map (·.height)).Pairwise (· ≤ ·) ∧
      (∀ b ∈ s.read, b.cached = some (b.id C08.toy)) ∧
      ∀ b ∈ s.read, ∀ t ∈ b.txs, t.cached = some (C08.toy.sha256d (encTx t.tx)) :=
  C08.store_roundtrip_partial C08.toy [[gS], [cS]] goodHistory_with_spend

/-- what is read back: both blocks, the child with its reward and the spend -/
example : (Store.writeAll C08.toy Store.empty [[gS], [cS]]).1.read.map (fun b => b.txs.map (·.tx)) =
    [[StoreL.Ex.txA], [StoreL.Ex.txB, txSp]] := by decide +kernel

/-! ## further hypotheses sets of C01 / C05 / C10Fetch -/

/-- `C01.signable_covers`: two well-formed transactions that differ (in their signatures) and have the same signed message -/
def tSigA : Tx := ⟨[⟨⟨zeros 32, 1⟩, .secp (zeros 64)⟩], [⟨3, zeros 64⟩]⟩
def tSigB : Tx := ⟨[⟨⟨zeros 32, 1⟩, .secp (List.replicate 64 1)⟩], [⟨3, zeros 64⟩]⟩
theorem tSig_wf : tSigA.WF ∧ tSigB.WF := by
  refine ⟨⟨?_, ?_⟩, ⟨?_, ?_⟩⟩
  · intro i hi
    rw [List.mem_singleton.1 hi]
    exact ⟨⟨by decide, by decide⟩, show (zeros 64).length = 64 by decide⟩
  · intro o ho
    rw [List.mem_singleton.1 ho]
    exact ⟨by decide, by decide⟩
  · intro i hi
    rw [List.mem_singleton.1 hi]
    exact ⟨⟨by decide, by decide⟩, show (List.replicate 64 (1 : UInt8)).length = 64 by decide⟩
  · intro o ho
    rw [List.mem_singleton.1 ho]
    exact ⟨by decide, by decide⟩

example : tSigA ≠ tSigB ∧ (tSigA.inputs.map (·.ref) = tSigB.inputs.map (·.ref) ∧ tSigA.outputs = tSigB.outputs) :=
  ⟨by decide, C01.signable_covers tSigA tSigB tSig_wf.1 tSig_wf.2 rfl⟩

/-- `C05.calcTarget_spec`, retargeting branch: interval 2, the block at height 2 on `G ← B1` -/
def P2 : Params := { exP with retargetInterval := 2 }
example : ∃ t, calcTarget exC P2 s1 2 9 B1 = .ok t ∧ 2 % P2.retargetInterval = 0 ∧ t.length = 32 ∧
    ∃ sb, (s1.byHeightAt.get? (B1.id exC)).bind (·.get? (2 - P2.retargetInterval)) = some sb ∧
      P2.retargetInterval ≤ 2 ∧ sb.timestamp ≤ 9 ∧ t = newTarget P2 B1.target (9 - sb.timestamp) := by
  have h : calcTarget exC P2 s1 2 9 B1 = .ok (newTarget P2 B1.target 9) := by decide +kernel
  exact ⟨_, h, by decide, (C05.newTarget_spec P2 _ _).1, (C05.calcTarget_spec exC P2 s1 2 9 B1 _ h).2 (by decide)⟩

/-- `C05.stale_or_wrong_target_rejected`: `B1` claiming the target `[2]` -/
def B1target : Block := ⟨⟨⟨1, [1], [], 5, [2], 0⟩, ⟨[], zeros 32, []⟩⟩, [cb1, spend], some [2]⟩
example := C05.stale_or_wrong_target_rejected exC exP sG B1target 5 G (by decide) (by decide +kernel)
  (by decide +kernel)

/-- `C05.timestamp_not_after_parent_rejected`: `B1` with the parent's timestamp -/
def B1early : Block := ⟨⟨⟨1, [1], [], 0, [1], 0⟩, ⟨[], zeros 32, []⟩⟩, [cb1, spend], some [2]⟩
example := C05.timestamp_not_after_parent_rejected exC exP sG B1early 5 G (by decide) (by decide +kernel)
  (by decide)

/-- `C05.future_timestamp_rejected`: `B1` validated at time −100 -/
example := C05.future_timestamp_rejected exC exP sG B1 (-100) (by decide)

/-- `C18.above_horizon_full_validation` -/
example := C18.above_horizon_full_validation exC exP sG B1 (by decide) (ok_of_isOk (by decide +kernel))

/-- `C10Fetch.step_is_local` / `fetching_bounded`: a step that returned normally (and did send a request) -/
example : True := by
  obtain ⟨c, n', f', h, _, _, hf⟩ := C10Fetch.asks_again_after_timeouts exC exF nG exFs 2000 0 G [[1]] nG_head
    (by decide) 0 peerA rfl rfl (by decide) (by decide) nG_locator
  have _ := C10Fetch.step_is_local exC exF nG n' exFs f' 2000 0 h
  have _ := C10Fetch.fetching_bounded exC exF nG n' exFs f' 2000 0 (by decide) h
  trivial

/-- `C10Fetch.prune_keeps`: an entry that survives pruning (timeout ahead, batch unfinished) -/
def nWait : Node := { nG with peers := [{ peerA with waitingForInventory := true }, peerI] }
example := C10Fetch.prune_keeps nWait ⟨0, fun _ => 0, [(5000, 0)]⟩ 2000 (5000, 0) (by decide)


/-- `C02.blockFees_nonneg` -/
example : (0 : Int) ≤ 4 :=
  C02.blockFees_nonneg [(⟨[7], 0⟩, ⟨10, [5]⟩)] [spend] 4 (by decide +kernel)
    (by intro t ht; rw [List.mem_singleton.1 ht]; exact ⟨10, by decide +kernel, by decide⟩)

end NonVacuity2

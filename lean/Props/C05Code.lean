import Props.C05
import Props.GenTie.Target

/-! # C05, for the code's functions as translated from /repo on this run -/

namespace Model
namespace C05

/-- `calculate_new_target` as the code has it now: 32 bytes, the previous target times elapsed
seconds over 1,209,600, integer-exact, capped at 2^256 − 1 — for every previous target and every
elapsed time -/
theorem code_calculate_new_target (prev : Bytes) (t : Nat) :
    (Gen.calculate_new_target prev t).length = 32 ∧
    bytesToNat (Gen.calculate_new_target prev t) = min (bytesToNat prev * t / 1209600) (2 ^ 256 - 1) := by
  rw [GenTie.calculate_new_target_eq]
  exact ⟨(newTarget_spec Gen.params prev t).1, (production_retarget prev t).2⟩

theorem code_select_block_height_in_range (hash : Bytes) (height : Nat) (hpos : 0 < height) :
    Gen.select_block_height hash height < height := by
  rw [GenTie.select_block_height_eq]
  exact sampled_height_in_range hash height hpos

end C05
end Model

import Model.Node
import Model.Spec
import Proofs.Walk
import Proofs.Sync2
import Props.C03
import Props.C10Walk
import Props.C10Follow
import Props.C10Sync

/-!
# C10 (continued) — one requester, one server: the whole exchange converges

`syncRun` is the message exchange between a requesting node and one server whose chain state does not change meanwhile, round
by round, as the handlers perform it:

* the server answers the locator with an inventory batch (`inventoryReply`);
* the requester asks for the data of every listed block it does not store (`C10Follow.inventory_followup`: exactly these
  requests, in this order, then the follow-up request with the locator `[last listed id]`);
* the server sends the blocks it stores for those requests, in order (`handleMessage … (.getData …)`);
* the requester's block handler processes them as answers (`in_response_to ≠ 0`);
* the next round starts from `[last listed id]`; an empty batch ends the exchange.

`one_peer_sync_converges`: for a requester and a server built from well-formed histories with the same genesis and no id
collision between them, whose blocks pass the by-itself validation at the requester's clock and lie at heights where bulk download
does not validate, the exchange started with the requester's own locator ends — given fuel for the server's height — with the
requester's head at least as high as the server's.

The two hypotheses about the delivered blocks (`hvalid`, `hskip`) are asked only of the server's blocks that are *not in the
requester's history* — the only ones ever delivered. Asked of the whole server history, `hskip` could never hold (the genesis
block has height 0 and `0 % IBD_VALIDATION_SKIP = 0`: `hskip_on_whole_history_is_false`), and the theorem would be vacuous; the
`example` at the end shows that the hypotheses as stated are satisfiable and that `syncRun` then ends at the server's height.
Not covered: an exchange that crosses a height divisible by `IBD_VALIDATION_SKIP` (10,000 in production), where the handler
validates the block fully.

Proof: invariant `Inv` over rounds (the requester's state is built from a well-formed history `ds ⊇ rs` without id collision
with the server's, containing every active-chain block of the server below height `k`); `batch` is one round of deliveries,
`rounds` the induction on the fuel.
-/

namespace C10Converge
open Model

variable (C : Crypto) (P : Params)

theorem syncRun_zero (srv : CoinState) (c : Nat) (now : Int) (n : Node) (loc : List Bytes) :
    syncRun C P srv c now 0 n loc = n := rfl

theorem syncRun_succ_nil (srv : CoinState) (c : Nat) (now : Int) (fuel : Nat) (n : Node) (loc : List Bytes)
    (h : inventoryReply C P srv loc = .ok []) : syncRun C P srv c now (fuel + 1) n loc = n := by
  simp only [syncRun, h]

theorem syncRun_nil (srv : CoinState) (c : Nat) (now : Int) (fuel : Nat) (n : Node) (loc : List Bytes)
    (h : inventoryReply C P srv loc = .ok []) : syncRun C P srv c now fuel n loc = n := by
  cases fuel with
  | zero => rfl
  | succ fuel => exact syncRun_succ_nil C P srv c now fuel n loc h

theorem syncRun_succ_cons (srv : CoinState) (c : Nat) (now : Int) (fuel : Nat) (n : Node)
    (loc ids : List Bytes) (last : Bytes)
    (h : inventoryReply C P srv loc = .ok ids) (hl : ids.getLast? = some last) :
    syncRun C P srv c now (fuel + 1) n loc =
      syncRun C P srv c now fuel
        (deliver C P n c (serveData srv (ids.filter fun x => !n.mgr.coinstate.blocks.contains x)) now)
        [last] := by
  cases ids with
  | nil => cases hl
  | cons i rest =>
    have hl' : (i :: rest).getLast! = last := List.getLast!_of_getLast? hl
    simp only [syncRun, h, hl']

theorem serveData_append (srv : CoinState) (l₁ l₂ : List Bytes) :
    serveData srv (l₁ ++ l₂) = serveData srv l₁ ++ serveData srv l₂ := by
  simp [serveData, List.filterMap_append]

theorem deliver_append (n : Node) (c : Nat) (l₁ l₂ : List Block) (now : Int) :
    deliver C P n c (l₁ ++ l₂) now = deliver C P (deliver C P n c l₁ now) c l₂ now := by
  simp [deliver, List.foldl_append]

/-! ## the invariant of the exchange -/

/-- the requester's chain state `s` is built from the well-formed history `ds`, which has no id collision with the server's
history `ss` and contains every block of the server's active chain below height `k` -/
structure Inv (ss : List Block) (index : Map Nat Block) (s : CoinState) (ds : List Block) (k : Nat) : Prop where
  wf : WFArrivals C ds
  fold : foldBlocks C .empty ds = .ok s
  same : ∀ a ∈ ds, ∀ b ∈ ss, a.id C = b.id C → a = b
  below : ∀ j a, j < k → index.get? j = some a → a ∈ ds

section Rounds
variable {ss : List Block} {srv : CoinState} {index : Map Nat Block} {hd : Block}

/-- one batch: the ids of the active chain at heights `start … start + m - 1`, those not stored requested, served and delivered
in order -/
theorem batch (Bs : C10Walk.Built C ss srv index hd)
    (hwfs : WFArrivals C ss) (hfs : foldBlocks C .empty ss = .ok srv)
    (c : Nat) (now : Int)
    (rs : List Block)
    (hvalid : ∀ b ∈ ss, b ∉ rs → validateBlockByItself C P b now = .ok ())
    (hskip : ∀ b ∈ ss, b ∉ rs → b.height % P.ibdValidationSkip ≠ 0)
    (n : Node) (ds : List Block) (hrs : ∀ a ∈ rs, a ∈ ds) (start : Nat) (h1 : 1 ≤ start)
    (I : Inv C ss index n.mgr.coinstate ds start) : ∀ m, start + m ≤ hd.height + 1 →
    ∃ ds', Inv C ss index
        (deliver C P n c (serveData srv ((C10Walk.chainIds C index start m).filter
          fun x => !n.mgr.coinstate.blocks.contains x)) now).mgr.coinstate ds' (start + m) ∧
      (∀ a ∈ ds, a ∈ ds') ∧ ∀ a ∈ ds', a ∈ ds ∨ a.height < start + m := by
  intro m
  induction m with
  | zero =>
    intro _
    exact ⟨ds, by simpa [C10Walk.chainIds, serveData, deliver] using I, fun a ha => ha,
      fun a ha => Or.inl ha⟩
  | succ m ih =>
    intro hm
    obtain ⟨ds', I', hsub, hds'⟩ := ih (by omega)
    obtain ⟨a, ha⟩ := Bs.chain.full (start + m) (by omega)
    have has : a ∈ ss := Bs.mem _ a ha
    obtain ⟨hast, hah⟩ := Bs.chain.stored _ a ha
    have hone : C10Walk.chainIds C index (start + m) 1 = [a.id C] := by
      simp [C10Walk.chainIds, C10Walk.idAt_of_some C ha]
    rw [← Nat.add_assoc, ← C10Walk.chainIds_append, hone, List.filter_append, serveData_append,
      deliver_append]
    generalize deliver C P n c (serveData srv ((C10Walk.chainIds C index start m).filter
          fun x => !n.mgr.coinstate.blocks.contains x)) now = n' at I'
    have Ir := C10Walk.stateInv C ds _ I.wf I.fold
    by_cases hc : n.mgr.coinstate.blocks.contains (a.id C) = true
    · -- already stored at the start of the round: a block of the history, not requested
      have hf : ([a.id C].filter fun x => !n.mgr.coinstate.blocks.contains x) = [] := by
        simp [hc]
      rw [hf]
      refine ⟨ds', ⟨I'.wf, I'.fold, I'.same, ?_⟩, hsub, ?_⟩
      · intro j x hj hx
        by_cases hjn : j = start + m
        · subst hjn
          rw [ha] at hx
          cases hx
          obtain ⟨y, hy⟩ := (Map.contains_eq_true_iff _ _).1 hc
          obtain ⟨hyr, hyid⟩ := Ir.storeInv _ y hy
          have e : y = a := I.same y hyr a has hyid
          exact hsub a (e ▸ hyr)
        · exact I'.below j x (by omega) hx
      · intro x hx
        rcases hds' x hx with h | h
        · exact Or.inl h
        · exact Or.inr (by omega)
    · -- not stored: requested, served, delivered
      have hc' : n.mgr.coinstate.blocks.contains (a.id C) = false := by simpa using hc
      have hf : ([a.id C].filter fun x => !n.mgr.coinstate.blocks.contains x) = [a.id C] := by
        simp [hc']
      have hsv : serveData srv [a.id C] = [a] := by
        simp [serveData, hast]
      rw [hf, hsv]
      have Is := C10Walk.stateInv C ds' _ I'.wf I'.fold
      -- `a` is not stored by the current state either
      have hnew : n'.mgr.coinstate.blocks.contains (a.id C) = false := by
        cases hg : n'.mgr.coinstate.blocks.get? (a.id C) with
        | none => simp [Map.contains, hg]
        | some y =>
          exfalso
          obtain ⟨hyd, hyid⟩ := Is.storeInv _ y hg
          have e : y = a := I'.same y hyd a has hyid
          subst e
          rcases hds' y hyd with hyr | hlt
          · have := Ir.store y hyr
            simp [Map.contains, this] at hc'
          · omega
      obtain ⟨k, hk⟩ : ∃ k, start + m = k + 1 := ⟨start + m - 1, by omega⟩
      obtain ⟨p, hp⟩ := Bs.chain.full k (by omega)
      have hps : p ∈ ss := Bs.mem k p hp
      have hph : p.height = k := (Bs.chain.stored k p hp).2
      have hprev : a.prev = p.id C := Bs.chain.link k p a hp (hk ▸ ha)
      have hpd : p ∈ ds' := I'.below k p (by omega) hp
      obtain ⟨s', hadd, hwf', hfd', hsm'⟩ := extend_ok C I'.wf I'.fold hwfs hfs I'.same has hps hpd hprev
        (by omega) hnew
      have hparent : n'.mgr.coinstate.blocks.contains a.prev = true := by
        rw [hprev]
        simp [Map.contains, Is.store p hpd]
      have har : a ∉ rs := by
        intro h
        have := Ir.store a (hrs a h)
        simp [Map.contains, this] at hc'
      obtain ⟨-, hcs, -, -⟩ := C10Sync.solicited_delivery_is_add C P n' c 1 a now s' (by decide) hnew
        hparent (hvalid a has har) (hskip a has har) hadd
      have hdl : (deliver C P n' c [a] now).mgr.coinstate = s' := by
        simpa [deliver] using hcs
      rw [hdl]
      refine ⟨ds' ++ [a], ⟨hwf', hfd', hsm', ?_⟩, ?_, ?_⟩
      · intro j x hj hx
        by_cases hjn : j = start + m
        · subst hjn
          rw [ha] at hx
          cases hx
          exact List.mem_append_right _ (List.mem_singleton.2 rfl)
        · exact List.mem_append_left _ (I'.below j x (by omega) hx)
      · intro x hx
        exact List.mem_append_left _ (hsub x hx)
      · intro x hx
        rcases List.mem_append.1 hx with hx | hx
        · rcases hds' x hx with h | h
          · exact Or.inl h
          · exact Or.inr (by omega)
        · rw [List.mem_singleton.1 hx]
          exact Or.inr (by omega)

theorem Inv.mono {s : CoinState} {ds : List Block} {k k' : Nat} (I : Inv C ss index s ds k) (h : k' ≤ k) :
    Inv C ss index s ds k' :=
  ⟨I.wf, I.fold, I.same, fun j a hj ha => I.below j a (by omega) ha⟩

/-- the rounds from a locator for which the server's scan yields `start`, all active-chain blocks below `start` being in the
requester's history: at the end the whole active chain is -/
theorem rounds (Bs : C10Walk.Built C ss srv index hd)
    (hwfs : WFArrivals C ss) (hfs : foldBlocks C .empty ss = .ok srv)
    (c : Nat) (now : Int)
    (rs : List Block)
    (hvalid : ∀ b ∈ ss, b ∉ rs → validateBlockByItself C P b now = .ok ())
    (hskip : ∀ b ∈ ss, b ∉ rs → b.height % P.ibdValidationSkip ≠ 0)
    (hinv : 0 < P.inventorySize) : ∀ (fuel : Nat) (n : Node) (ds : List Block) (start : Nat) (loc : List Bytes),
    (∀ a ∈ rs, a ∈ ds) → 1 ≤ start → Inv C ss index n.mgr.coinstate ds start →
    inventoryReply.scan srv index loc = some (some start) → hd.height + 1 - start ≤ fuel →
    ∃ ds', Inv C ss index (syncRun C P srv c now fuel n loc).mgr.coinstate ds' (hd.height + 1) := by
  intro fuel
  induction fuel with
  | zero =>
    intro n ds start loc _ _ I _ hf
    exact ⟨ds, I.mono C (by omega)⟩
  | succ fuel ih =>
    intro n ds start loc hrs h1 I hs hf
    have W := Bs.chain
    have hr := C10Walk.reply_of_scan_start C P W loc start hs
    by_cases hlt : start ≤ hd.height
    · obtain ⟨m, hm⟩ : ∃ m, min (start + P.inventorySize) (hd.height + 1) - start = m + 1 :=
        ⟨min (start + P.inventorySize) (hd.height + 1) - start - 1, by omega⟩
      rw [hm] at hr
      obtain ⟨x', hx'⟩ := W.full (start + m) (by omega)
      have hlast := C10Walk.chainIds_getLast C index start m
      rw [C10Walk.idAt_of_some C hx'] at hlast
      rw [syncRun_succ_cons C P srv c now fuel n loc _ _ hr hlast]
      obtain ⟨ds', I', hsub, -⟩ := batch C P Bs hwfs hfs c now rs hvalid hskip n ds hrs start h1 I (m + 1) (by omega)
      generalize deliver C P n c (serveData srv ((C10Walk.chainIds C index start (m + 1)).filter
          fun x => !n.mgr.coinstate.blocks.contains x)) now = n' at I'
      by_cases hlt' : start + m < hd.height
      · exact ih n' ds' (start + m + 1) [x'.id C] (fun a ha => hsub a (hrs a ha)) (by omega) I'
          (C10Walk.scan_single_below C W hx' hlt') (by omega)
      · have e : start + m = hd.height := by omega
        rw [e] at hx'
        rw [syncRun_nil C P srv c now fuel n' _
          (C10Walk.reply_of_scan_none C P W.cur W.head _ (C10Walk.scan_single_head C W hx'))]
        exact ⟨ds', by rw [← e]; exact I'⟩
    · have h0 : min (start + P.inventorySize) (hd.height + 1) - start = 0 := by omega
      rw [h0] at hr
      rw [syncRun_succ_nil C P srv c now fuel n loc hr]
      exact ⟨ds, I.mono C (by omega)⟩

end Rounds

theorem one_peer_sync_converges (rs ss : List Block) (req srv : CoinState)
    (hwfr : WFArrivals C rs) (hfr : foldBlocks C .empty rs = .ok req)
    (hwfs : WFArrivals C ss) (hfs : foldBlocks C .empty ss = .ok srv)
    (hgen : rs.head? = ss.head?)
    -- no id collision between the two histories: equal ids mean equal blocks
    (hsame : ∀ a ∈ rs, ∀ b ∈ ss, a.id C = b.id C → a = b)
    (index : Map Nat Block) (hd : Block)
    (hidx : srv.current.bind srv.byHeightAt.get? = some index) (hhd : srv.head = some hd)
    (n : Node) (c : Nat) (now : Int) (hn : n.mgr.coinstate = req)
    -- the server's blocks that are not in the requester's history pass the requester's by-itself validation now, and none of
    -- them lies at a height where bulk download validates
    (hvalid : ∀ b ∈ ss, b ∉ rs → validateBlockByItself C P b now = .ok ())
    (hskip : ∀ b ∈ ss, b ∉ rs → b.height % P.ibdValidationSkip ≠ 0)
    (hinv : 0 < P.inventorySize) (fuel : Nat) (hfuel : hd.height + 1 ≤ fuel)
    (loc : List Bytes) (hloc : locator C req = .ok loc) :
    ∃ hd', (syncRun C P srv c now fuel n loc).mgr.coinstate.head = some hd' ∧ hd.height ≤ hd'.height := by
  subst hn
  have Bs := C10Walk.built C ss srv hwfs hfs index hd hidx hhd
  obtain ⟨rindex, rhd, Br⟩ := C10Walk.built_exists C rs _ hwfr hfr
  have hcompat : ∀ a ∈ rs, ∀ b ∈ ss, a.id C = b.id C → a.prev = b.prev ∧ a.height = b.height := by
    intro a ha b hb e
    rw [hsame a ha b hb e]
    exact ⟨rfl, rfl⟩
  have hl := C10Walk.locator_built C Br loc hloc
  -- the whole active chain of the server in a well-formed history of the final state: its head is high enough
  have fin : ∀ (s : CoinState) (ds : List Block), Inv C ss index s ds (hd.height + 1) →
      ∃ hd', s.head = some hd' ∧ hd.height ≤ hd'.height := by
    intro s ds I
    obtain ⟨m, -, hm, hge⟩ := built_head_ge C ds s I.wf I.fold
    obtain ⟨a, ha⟩ := Bs.chain.full hd.height (Nat.le_refl _)
    have hah := (Bs.chain.stored _ a ha).2
    have := hge a (I.below _ a (by omega) ha)
    exact ⟨m, hm, by omega⟩
  rcases C10Walk.scan_locator C Bs Br hcompat hgen (recentHeights rhd.height)
      (fun k hk => recentHeights_le _ k hk) with ⟨start, h1, hs, hag⟩ | ⟨hs, hle⟩
  · rw [← hl] at hs
    have I : Inv C ss index n.mgr.coinstate rs start := by
      refine ⟨hwfr, hfr, hsame, ?_⟩
      intro j x hj hx
      obtain ⟨a, b, ha, hb, hab⟩ := C10Walk.agree_down C Bs Br hcompat (start - 1) hag j (by omega)
      rw [hx] at ha
      cases ha
      have hbr := Br.mem j b hb
      rw [← hsame b hbr x (Bs.mem j x hx) hab.symm]
      exact hbr
    obtain ⟨ds', I'⟩ := rounds C P Bs hwfs hfs c now rs hvalid hskip hinv fuel n rs start loc (fun a ha => ha) h1 I hs (by omega)
    exact fin _ ds' I'
  · rw [← hl] at hs
    rw [syncRun_nil C P srv c now fuel n loc (C10Walk.reply_of_scan_none C P Bs.chain.cur Bs.chain.head loc hs)]
    exact ⟨rhd, Br.chain.head, hle⟩

/-! ## why `hskip` is asked of the missing blocks only -/

/-- `hskip` over the *whole* server history cannot hold: the history starts with a block of height 0, and
`0 % IBD_VALIDATION_SKIP = 0` -/
theorem hskip_on_whole_history_is_false (ss : List Block) (srv : CoinState)
    (hwfs : WFArrivals C ss) (hfs : foldBlocks C .empty ss = .ok srv) :
    ¬ ∀ b ∈ ss, b.height % P.ibdValidationSkip ≠ 0 := by
  intro h
  obtain ⟨index, hd, B⟩ := C10Walk.built_exists C ss srv hwfs hfs
  obtain ⟨g, hg⟩ := B.chain.full 0 (Nat.zero_le _)
  have hgh := (B.chain.stored 0 g hg).2
  exact h g (B.mem 0 g hg) (by rw [hgh, Nat.zero_mod])

/-! ## non-vacuity -/

section Examples

/-- a toy crypto (every hash is the empty string, below every non-empty target), small parameters with batch size 1 and
`IBD_VALIDATION_SKIP = 5`, and three blocks `G ← A ← A2` with cached ids `[1]`, `[2]`, `[4]` that pass
`validate_block_by_itself` (coinbase out of thin air carrying the height, Merkle root = the coinbase's cached hash `[7]`).
(The blocks `C10Walk.exG/exA/exA2` cannot be used here: their coinbase has no input and their target is empty, so they fail
the by-itself validation and `hvalid` does not hold for them.) -/
def exC : Crypto := ⟨fun _ => [], fun _ => [], fun _ _ => [], fun _ _ _ => true⟩
def exP : Params := ⟨100, 1000, 30, 10, 10, 10, 10, 10, 8, 4, -1, [], 1, 5, 1000, 1, 1, 1, 1, 1⟩
def exCb (h : Nat) : CTx := ⟨⟨[⟨thinAir, .coinbase h []⟩], [⟨10, [5]⟩]⟩, some [7]⟩
def exG : Block := ⟨⟨⟨0, zeros 32, [7], 0, [1], 0⟩, ⟨[], [], []⟩⟩, [exCb 0], some [1]⟩
def exA : Block := ⟨⟨⟨1, [1], [7], 0, [1], 0⟩, ⟨[], [], []⟩⟩, [exCb 1], some [2]⟩
def exA2 : Block := ⟨⟨⟨2, [2], [7], 0, [1], 0⟩, ⟨[], [], []⟩⟩, [exCb 2], some [4]⟩

theorem exWF_G : WFArrivals exC [exG] :=
  .genesis exG rfl rfl (by show ([1] : Bytes) ≠ zeros 32; decide)

theorem exWF_GA : WFArrivals exC [exG, exA] :=
  .snoc [exG] exA exG exWF_G (List.mem_singleton.2 rfl) rfl rfl
    (by show ([2] : Bytes) ≠ zeros 32; decide)
    (by intro c hc; rw [List.mem_singleton.1 hc]; show ([1] : Bytes) ≠ [2]; decide)

theorem exWF_GAA : WFArrivals exC [exG, exA, exA2] :=
  .snoc [exG, exA] exA2 exA exWF_GA (by simp) rfl rfl
    (by show ([4] : Bytes) ≠ zeros 32; decide)
    (by
      intro c hc
      simp only [List.mem_cons, List.not_mem_nil, or_false] at hc
      rcases hc with rfl | rfl
      · show ([1] : Bytes) ≠ [4]; decide
      · show ([2] : Bytes) ≠ [4]; decide)

theorem ok_of_isOk {x : Except Err Unit}
    (h : (match x with | .ok _ => true | .error _ => false) = true) : x = .ok () := by
  cases x with
  | ok u => rfl
  | error e => cases h

theorem exValid_A : validateBlockByItself exC exP exA 0 = .ok () := ok_of_isOk (by decide +kernel)
theorem exValid_A2 : validateBlockByItself exC exP exA2 0 = .ok () := ok_of_isOk (by decide +kernel)

/-- the hypotheses of `one_peer_sync_converges` are satisfiable and the exchange does what it says: requester `G`,
server `G ← A ← A2`, batch size 1; after three rounds the requester's head is at height 2 -/
example : ∃ (req srv : CoinState) (index : Map Nat Block) (hd : Block) (loc : List Bytes) (n : Node),
    WFArrivals exC [exG] ∧ foldBlocks exC .empty [exG] = .ok req ∧
    WFArrivals exC [exG, exA, exA2] ∧ foldBlocks exC .empty [exG, exA, exA2] = .ok srv ∧
    [exG].head? = [exG, exA, exA2].head? ∧
    (∀ a ∈ [exG], ∀ b ∈ [exG, exA, exA2], a.id exC = b.id exC → a = b) ∧
    srv.current.bind srv.byHeightAt.get? = some index ∧ srv.head = some hd ∧ hd.height = 2 ∧
    n.mgr.coinstate = req ∧
    (∀ b ∈ [exG, exA, exA2], b ∉ [exG] → validateBlockByItself exC exP b 0 = .ok ()) ∧
    (∀ b ∈ [exG, exA, exA2], b ∉ [exG] → b.height % exP.ibdValidationSkip ≠ 0) ∧
    0 < exP.inventorySize ∧ locator exC req = .ok loc ∧
    (syncRun exC exP srv 0 0 3 n loc).mgr.coinstate.head.map (·.height) = some 2 := by
  refine ⟨_, _, _, _, _, ⟨⟨_, [], none⟩, [], [], [], 0⟩, exWF_G, rfl, exWF_GAA, rfl, rfl, ?_, rfl, rfl, rfl, rfl,
    ?_, ?_, by decide, rfl, by decide +kernel⟩
  · intro a ha b hb h
    simp only [List.mem_cons, List.not_mem_nil, or_false] at ha hb
    subst ha
    rcases hb with rfl | rfl | rfl
    · rfl
    · exact absurd h (by show ([1] : Bytes) ≠ [2]; decide)
    · exact absurd h (by show ([1] : Bytes) ≠ [4]; decide)
  · intro b hb hnb
    simp only [List.mem_cons, List.not_mem_nil, or_false] at hb hnb
    rcases hb with rfl | rfl | rfl
    · exact absurd rfl hnb
    · exact exValid_A
    · exact exValid_A2
  · intro b hb hnb
    simp only [List.mem_cons, List.not_mem_nil, or_false] at hb hnb
    rcases hb with rfl | rfl | rfl
    · exact absurd rfl hnb
    · decide
    · decide

end Examples

end C10Converge
